package harness

import (
	"bufio"
	"context"
	"encoding/json"
	"errors"
	"fmt"
	"io"
	"os"
	"os/exec"
	"strconv"
	"strings"
	"sync/atomic"
	"testing"
	"time"

	"github.com/vbauerster/mpb/v8"
	"github.com/vbauerster/mpb/v8/decor"
)

// One case of Api.tla: a site that accepts a nil value, the kind of nil, the refresh mode, and what must happen.
type ApiCase struct {
	C struct {
		Site string `json:"site"`
		Kind string `json:"kind"`
		Mode string `json:"mode"`
	} `json:"c"`
	Expect struct {
		Panics           bool `json:"panics"`
		WaitReturns      bool `json:"waitReturns"`
		FramesWritten    bool `json:"framesWritten"`
		LateAddIsErrDone bool `json:"lateAddIsErrDone"`
		OptionApplied    bool `json:"optionApplied"`
		OptionBuilt      bool `json:"optionBuilt"`
	} `json:"expect"`
}

type countWriter struct{ n atomic.Int64 }

func (w *countWriter) Write(p []byte) (int, error) { w.n.Add(1); return len(p), nil }

type nilBuilder struct{ typed bool }

func (b nilBuilder) Build() mpb.BarFiller {
	if b.typed {
		return mpb.BarFillerFunc(nil)
	}
	return nil
}

// helperKind splits "func-opt-on:true" into the helper and its condition ("" for the other kinds).
func helperKind(kind string) (string, bool) {
	h, c, ok := strings.Cut(kind, ":")
	if !ok {
		return "", false
	}
	return h, c == "true"
}

const helperBarID = 7777

func plainFiller(w io.Writer, st decor.Statistics) error {
	_, err := io.WriteString(w, "#")
	return err
}

// runApiCase executes the program of Api.tla for one case in this process and returns what it observed.
func runApiCase(c *ApiCase) string {
	out := &countWriter{}
	var output io.Writer = out
	refresh := make(chan interface{})
	var opts []mpb.ContainerOption
	typed := c.C.Kind == "typed-nil"
	helper, cond := helperKind(c.C.Kind)
	built := 0
	var lateOpts []mpb.ContainerOption
	switch c.C.Mode {
	case "manual":
		if c.C.Site == "manual-refresh-channel" {
			opts = append(opts, mpb.WithManualRefresh(nil))
		} else {
			opts = append(opts, mpb.WithManualRefresh(refresh))
		}
	case "auto":
		opts = append(opts, mpb.WithAutoRefresh(), mpb.WithRefreshRate(2*time.Millisecond))
	}
	switch c.C.Site {
	case "output":
		output = nil
	case "debug-output":
		opts = append(opts, mpb.WithDebugOutput(nil))
	case "shutdown-notifier":
		opts = append(opts, mpb.WithShutdownNotifier(nil))
	case "render-delay":
		opts = append(opts, mpb.WithRenderDelay(nil))
	case "container-option":
		// the guarded option silences the container; it comes after WithOutput so that it decides
		mk := func() mpb.ContainerOption { built++; return mpb.WithOutput(nil) }
		pred := func() bool { return cond }
		switch helper {
		case "optional":
			lateOpts = append(lateOpts, mpb.ContainerOptional(mpb.WithOutput(nil), cond))
		case "opt-on":
			lateOpts = append(lateOpts, mpb.ContainerOptOn(mpb.WithOutput(nil), pred))
		case "func-optional":
			lateOpts = append(lateOpts, mpb.ContainerFuncOptional(mk, cond))
		case "func-opt-on":
			lateOpts = append(lateOpts, mpb.ContainerFuncOptOn(mk, pred))
		default:
			opts = append(opts, nil, mpb.ContainerOptional(mpb.WithWidth(40), false))
		}
	}
	opts = append(opts, mpb.WithOutput(output), mpb.WithWidth(60))
	opts = append(opts, lateOpts...)
	ctx, cancel := context.WithCancel(context.Background())
	defer cancel()
	p := mpb.NewWithContext(ctx, opts...)
	a := p.MustAdd(3, mpb.BarFillerFunc(plainFiller), mpb.PrependDecorators(decor.Name("a")))
	var b *mpb.Bar
	var err error
	bopts := []mpb.BarOption{mpb.AppendDecorators(decor.Percentage())}
	switch c.C.Site {
	case "add-filler":
		if typed {
			b, err = p.Add(3, mpb.BarFillerFunc(nil), bopts...)
		} else {
			b, err = p.Add(3, nil, bopts...)
		}
	case "new-builder":
		b = p.New(3, nil, bopts...)
	case "builder-returns-nil":
		b = p.New(3, nilBuilder{typed}, bopts...)
	case "extender":
		if typed {
			bopts = append(bopts, mpb.BarExtender(mpb.BarFillerFunc(nil), false))
		} else {
			bopts = append(bopts, mpb.BarExtender(nil, true))
		}
		b, err = p.Add(3, mpb.BarFillerFunc(plainFiller), bopts...)
	case "prepend-decorator":
		b, err = p.Add(3, mpb.BarFillerFunc(plainFiller), mpb.PrependDecorators(nil, decor.Name("b"), nil))
	case "append-decorator":
		b, err = p.Add(3, mpb.BarFillerFunc(plainFiller), mpb.AppendDecorators(nil, decor.Percentage(decor.WCSyncSpace), nil))
	case "filler-middleware":
		b, err = p.Add(3, mpb.BarFillerFunc(plainFiller), append(bopts, mpb.BarFillerMiddleware(nil))...)
	case "bar-option":
		mk := func() mpb.BarOption { built++; return mpb.BarID(helperBarID) }
		pred := func() bool { return cond }
		switch helper {
		case "optional":
			bopts = append(bopts, mpb.BarOptional(mpb.BarID(helperBarID), cond))
		case "opt-on":
			bopts = append(bopts, mpb.BarOptOn(mpb.BarID(helperBarID), pred))
		case "func-optional":
			bopts = append(bopts, mpb.BarFuncOptional(mk, cond))
		case "func-opt-on":
			bopts = append(bopts, mpb.BarFuncOptOn(mk, pred))
		default:
			bopts = append(bopts, nil, mpb.BarOptional(mpb.BarRemoveOnComplete(), false))
		}
		b, err = p.Add(3, mpb.BarFillerFunc(plainFiller), bopts...)
	case "queue-after":
		b, err = p.Add(3, mpb.BarFillerFunc(plainFiller), append(bopts, mpb.BarQueueAfter(nil))...)
	default:
		b, err = p.Add(3, mpb.BarFillerFunc(plainFiller), bopts...)
	}
	if err != nil || b == nil {
		return fmt.Sprintf("Add with the unusual argument failed: %v", err)
	}
	tick := func() {
		if c.C.Mode != "manual" || c.C.Site == "manual-refresh-channel" {
			time.Sleep(3 * time.Millisecond)
			return
		}
		select {
		case refresh <- time.Now():
		case <-time.After(2 * time.Second):
		}
		time.Sleep(time.Millisecond)
	}
	tick()
	a.IncrBy(1)
	b.IncrBy(2)
	tick()
	tick()
	a.IncrBy(2)
	b.IncrBy(1)
	for i := 0; i < 4; i++ {
		tick()
	}
	done := make(chan struct{})
	go func() { p.Wait(); close(done) }()
	waited := true
	for i := 0; i < 400 && waited; i++ {
		select {
		case <-done:
			waited = false
		default:
			tick() // a manually refreshed container draws its last frames on request
		}
	}
	if waited {
		select {
		case <-done:
		case <-time.After(3 * time.Second):
			return "Progress.Wait does not return"
		}
	}
	if !b.Completed() || !a.Completed() {
		return fmt.Sprintf("after Wait: a completed=%v, b completed=%v", a.Completed(), b.Completed())
	}
	frames := out.n.Load()
	if c.Expect.FramesWritten && frames == 0 {
		return "no frame reached the output"
	}
	if !c.Expect.FramesWritten && c.C.Site == "output" && frames != 0 {
		return "a nil output received writes"
	}
	if helper != "" {
		if strings.HasPrefix(helper, "func-") && (built > 0) != c.Expect.OptionBuilt {
			return fmt.Sprintf("%s with condition %v built the option %d times", helper, cond, built)
		}
		switch c.C.Site {
		case "bar-option":
			if (b.ID() == helperBarID) != c.Expect.OptionApplied {
				return fmt.Sprintf("%s with condition %v: the bar's id is %d", helper, cond, b.ID())
			}
		case "container-option":
			if c.Expect.OptionApplied && frames != 0 {
				return fmt.Sprintf("%s with condition true: the guarded option (no output) was not applied, %d writes", helper, frames)
			}
		}
	}
	if _, err := p.Add(1, nil); !errors.Is(err, mpb.ErrDone) {
		return fmt.Sprintf("late Add returned %v", err)
	}
	if n, err := p.Write([]byte("x\n")); n != 0 || !errors.Is(err, mpb.ErrDone) {
		return fmt.Sprintf("late Write returned (%d, %v)", n, err)
	}
	return ""
}

// TestApiChild runs one case (VH_CASE) and prints its verdict; a panic in any goroutine ends the process instead.
func TestApiChild(t *testing.T) {
	js := os.Getenv("VH_CASE")
	if js == "" {
		t.Skip("VH_CASE not set")
	}
	var c ApiCase
	if err := json.Unmarshal([]byte(js), &c); err != nil {
		t.Fatal(err)
	}
	fmt.Printf("APIRESULT %q\n", runApiCase(&c))
}

// TestApiCases: every case TLC printed from Api.tla, each in a child process.
func TestApiCases(t *testing.T) {
	in := os.Getenv("VH_IN")
	if in == "" {
		t.Skip("VH_IN not set")
	}
	f, err := os.Open(in)
	if err != nil {
		t.Fatal(err)
	}
	defer f.Close()
	o, _ := os.Create(os.Getenv("VH_OUT"))
	defer o.Close()
	w := bufio.NewWriter(o)
	defer w.Flush()
	from, _ := strconv.Atoi(os.Getenv("VH_FROM"))
	step, _ := strconv.Atoi(os.Getenv("VH_STEP"))
	if step == 0 {
		step = 1
	}
	scn := bufio.NewScanner(f)
	scn.Buffer(make([]byte, 1<<20), 1<<24)
	n, idx := 0, -1
	for scn.Scan() {
		line := scn.Text()
		if !strings.HasPrefix(line, `<<"API", "`) {
			continue
		}
		idx++
		if idx%step != from {
			continue
		}
		js := strings.ReplaceAll(strings.TrimSuffix(strings.TrimPrefix(line, `<<"API", "`), `">>`), `\"`, `"`)
		var c ApiCase
		if err := json.Unmarshal([]byte(js), &c); err != nil {
			t.Fatalf("case %d: %v: %s", idx, err, js)
		}
		n++
		cmd := exec.Command(os.Args[0], "-test.run", "^TestApiChild$", "-test.timeout", "60s")
		cmd.Env = append(os.Environ(), "VH_CASE="+js, "VH_IN=")
		outb, err := cmd.CombinedOutput()
		msg := ""
		switch m := strings.Index(string(outb), "APIRESULT "); {
		case err != nil || m < 0:
			// the child died: a panic (or a fatal error) in some goroutine, or the test timeout
			first := ""
			for _, l := range strings.Split(string(outb), "\n") {
				if strings.HasPrefix(l, "panic:") || strings.HasPrefix(l, "fatal error:") {
					first = l
					break
				}
			}
			msg = fmt.Sprintf("the process died (%v): %s", err, first)
		default:
			rest := string(outb)[m+len("APIRESULT "):]
			if q, err := strconv.Unquote(strings.SplitN(rest, "\n", 2)[0]); err == nil {
				msg = q
			} else {
				msg = "unreadable verdict: " + rest
			}
		}
		if msg != "" {
			b, _ := json.Marshal(map[string]interface{}{"row": idx, "c": c.C, "msg": msg})
			w.Write(b)
			w.WriteByte('\n')
		}
	}
	fmt.Fprintf(w, "{\"done\":%d}\n", n)
}
