package harness

import (
	"bufio"
	"context"
	"encoding/json"
	"io"
	"os"
	"testing"
	"time"

	"github.com/vbauerster/mpb/v8"
	"github.com/vbauerster/mpb/v8/decor"
)

// A BarSeq is one walk of the BarState.tla state graph: an initial total and the labels
// of the edges.  The worker executes it on a real bar of a non-refreshing container and
// reports what the getters return after every call.
type BarSeq struct {
	ID    int       `json:"id"`
	Total int64     `json:"total"`
	Ops   []BarCall `json:"ops"`
	// every total and argument of the walk is multiplied by Scale (0 = 1) and the observed counters are divided by it:
	// the rules of BarRules.tla are homogeneous (only comparisons and sums), and Apalache checks them for every integer
	Scale int64 `json:"scale,omitempty"`
}

// unscale maps an observed counter back to the walk's numbers; a value that is not a multiple of the scale is not a
// value of the scaled walk at all and is reported as it is (it then matches no state of the specification)
func unscale(v, k int64) int64 {
	if k <= 1 || v%k != 0 {
		return v
	}
	return v / k
}

type BarCall struct {
	Op string `json:"op"`
	A  int64  `json:"a"`
	F  bool   `json:"f"`
}

type BarObs struct {
	ID  int        `json:"id"`
	Obs [][4]int64 `json:"obs"` // current, completed, aborted after each call; the refill mark a render saw (-1: not observed)
}

func b2i(b bool) int64 {
	if b {
		return 1
	}
	return 0
}

func runBarSeq(s0 *BarSeq) BarObs {
	sk := s0.Scale
	if sk < 1 {
		sk = 1
	}
	s := &BarSeq{ID: s0.ID, Total: s0.Total * sk, Scale: sk}
	for _, c := range s0.Ops {
		s.Ops = append(s.Ops, BarCall{Op: c.Op, A: c.A * sk, F: c.F})
	}
	ctx, cancel := context.WithCancel(context.Background())
	defer cancel()
	// refreshes happen only on request: after a SetRefill on a live bar one frame is drawn and the
	// Statistics handed to the filler show the mark (the getters do not expose it)
	refresh := make(chan interface{})
	seen := make(chan decor.Statistics, 16)
	p := mpb.NewWithContext(ctx, mpb.WithOutput(io.Discard), mpb.WithManualRefresh(refresh))
	bar, err := p.Add(s.Total, mpb.BarFillerFunc(func(w io.Writer, st decor.Statistics) error {
		select {
		case seen <- st:
		default:
		}
		return nil
	}))
	if err != nil {
		panic(err)
	}
	out := BarObs{ID: s.ID}
	cancelled := false
	for k, c := range s.Ops {
		live := !cancelled && !bar.Completed() && !bar.Aborted()
		refill := int64(-1)
		switch c.Op {
		case "incr":
			// every member of the increment family is the same rule; the variant is a function of the walk
			switch v := (s.ID + k) % 6; {
			case v == 0 && c.A == 1:
				bar.Increment()
			case v == 1 && c.A == 1:
				bar.EwmaIncrement(time.Millisecond)
			case v == 2:
				bar.IncrBy(int(c.A))
			case v == 3:
				bar.EwmaIncrBy(int(c.A), time.Millisecond)
			case v == 4:
				bar.EwmaIncrInt64(c.A, time.Millisecond)
			default:
				bar.IncrInt64(c.A)
			}
		case "setcur":
			if (s.ID+k)%2 == 0 {
				bar.EwmaSetCurrent(c.A, time.Millisecond)
			} else {
				bar.SetCurrent(c.A)
			}
		case "settotal":
			bar.SetTotal(c.A, c.F)
		case "trigger":
			bar.EnableTriggerComplete()
		case "refill":
			bar.SetRefill(c.A)
			if live {
				for len(seen) > 0 {
					<-seen
				}
				select {
				case refresh <- time.Now():
					select {
					case st := <-seen:
						refill = unscale(st.Refill, sk)
					case <-time.After(2 * time.Second):
					}
				case <-time.After(2 * time.Second):
				}
			}
		case "abort":
			bar.Abort(c.F)
		case "exit":
			// the specification takes this step only from a terminal state; a bar that is not terminal here would
			// block for ever, and the getters below already disagree with the specification
			if bar.Completed() || bar.Aborted() || cancelled {
				bar.Wait()
			}
		case "cancel":
			cancel()
			cancelled = true
		}
		out.Obs = append(out.Obs, [4]int64{unscale(bar.Current(), sk), b2i(bar.Completed()), b2i(bar.Aborted()), refill})
	}
	cancel()
	p.Wait()
	return out
}

func TestBarSeq(t *testing.T) {
	in := os.Getenv("VH_IN")
	if in == "" {
		t.Skip("VH_IN not set")
	}
	f, err := os.Open(in)
	if err != nil {
		t.Fatal(err)
	}
	defer f.Close()
	o, err := os.Create(os.Getenv("VH_OUT"))
	if err != nil {
		t.Fatal(err)
	}
	defer o.Close()
	w := bufio.NewWriterSize(o, 1<<20)
	defer w.Flush()
	scn := bufio.NewScanner(f)
	scn.Buffer(make([]byte, 1<<20), 1<<26)
	for scn.Scan() {
		var s BarSeq
		if err := json.Unmarshal(scn.Bytes(), &s); err != nil {
			t.Fatal(err)
		}
		b, _ := json.Marshal(runBarSeq(&s))
		w.Write(b)
		w.WriteByte('\n')
	}
}
