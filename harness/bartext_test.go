package harness

import (
	"bufio"
	"encoding/json"
	"fmt"
	"io"
	"os"
	"regexp"
	"strconv"
	"strings"
	"sync"
	"testing"
	"time"

	"github.com/vbauerster/mpb/v8"
	"github.com/vbauerster/mpb/v8/decor"
)

// One case of BarText.tla: the stack of filler options, how the bar ends, how many frames are drawn after that,
// and the tokens the filler must show while running and once finished.
type BarTextCase struct {
	C struct {
		Stack []string `json:"stack"`
		Fin   string   `json:"fin"`
		After int      `json:"after"`
	} `json:"c"`
	Expect struct {
		Running  []string `json:"running"`
		Finished []string `json:"finished"`
	} `json:"expect"`
}

type frameLog struct {
	mu     sync.Mutex
	frames []string
}

func (l *frameLog) Write(p []byte) (int, error) {
	l.mu.Lock()
	l.frames = append(l.frames, string(p))
	l.mu.Unlock()
	return len(p), nil
}

func (l *frameLog) count() int {
	l.mu.Lock()
	defer l.mu.Unlock()
	return len(l.frames)
}

func (l *frameLog) waitFor(n int) bool {
	for dl := time.Now().Add(3 * time.Second); time.Now().Before(dl); time.Sleep(50 * time.Microsecond) {
		if l.count() >= n {
			return true
		}
	}
	return false
}

var reFrameHead = regexp.MustCompile("^\x1b\\[[0-9]*A\x1b\\[J")
var reBarTextRow = regexp.MustCompile(`^\[(run|C|A)\](.*)$`)

// runBarTextCase: one bar with the case's options, a state decorator in front of the filler, frames on request.
func runBarTextCase(c *BarTextCase) string {
	out := &frameLog{}
	refresh := make(chan interface{})
	p := mpb.New(mpb.WithOutput(out), mpb.WithWidth(120), mpb.WithManualRefresh(refresh))
	state := decor.Any(func(st decor.Statistics) string {
		switch {
		case st.Completed:
			return "[C]"
		case st.Aborted:
			return "[A]"
		}
		return "[run]"
	})
	opts := []mpb.BarOption{mpb.PrependDecorators(state), mpb.BarFillerTrim()}
	for i, k := range c.C.Stack {
		n := strconv.Itoa(i + 1)
		switch k {
		case "onC":
			opts = append(opts, mpb.BarFillerOnComplete("C"+n))
		case "onA":
			opts = append(opts, mpb.BarFillerOnAbort("A"+n))
		case "clrC":
			opts = append(opts, mpb.BarFillerClearOnComplete())
		case "clrA":
			opts = append(opts, mpb.BarFillerClearOnAbort())
		case "wrap":
			opts = append(opts, mpb.BarFillerMiddleware(func(base mpb.BarFiller) mpb.BarFiller {
				return mpb.BarFillerFunc(func(w io.Writer, st decor.Statistics) error {
					io.WriteString(w, "{"+n)
					err := base.Fill(w, st)
					io.WriteString(w, "}"+n)
					return err
				})
			}))
		}
	}
	bar, err := p.Add(3, mpb.BarFillerFunc(func(w io.Writer, _ decor.Statistics) error {
		_, err := io.WriteString(w, "B")
		return err
	}), opts...)
	if err != nil {
		return "Add: " + err.Error()
	}
	request := func() bool {
		n := out.count()
		select {
		case refresh <- time.Now():
		case <-time.After(3 * time.Second):
			return false
		}
		return out.waitFor(n + 1)
	}
	if !request() {
		return "no frame for the running bar"
	}
	first := out.count()
	if c.C.Fin == "C" {
		bar.IncrBy(3)
	} else {
		bar.Abort(false)
	}
	for k := 0; k < c.C.After; k++ {
		if !request() {
			return fmt.Sprintf("no frame for request %d after the bar finished", k+1)
		}
	}
	done := make(chan struct{})
	go func() { p.Wait(); close(done) }()
	select {
	case <-done:
	case <-time.After(5 * time.Second):
		return "Wait does not return"
	}
	out.mu.Lock()
	frames := append([]string(nil), out.frames...)
	out.mu.Unlock()
	if len(frames)-first < c.C.After {
		return fmt.Sprintf("%d frames after the bar finished, %d were requested", len(frames)-first, c.C.After)
	}
	for k, f := range frames {
		body := reFrameHead.ReplaceAllString(f, "")
		rows := strings.Split(strings.TrimSuffix(body, "\n"), "\n")
		if len(rows) != 1 {
			return fmt.Sprintf("frame %d has %d rows: %q", k+1, len(rows), f)
		}
		m := reBarTextRow.FindStringSubmatch(rows[0])
		if m == nil {
			return fmt.Sprintf("frame %d: unreadable row %q", k+1, rows[0])
		}
		want := strings.Join(c.Expect.Running, "")
		if m[1] != "run" {
			want = strings.Join(c.Expect.Finished, "")
		}
		switch {
		case k >= first && m[1] != c.C.Fin:
			return fmt.Sprintf("frame %d, drawn after the bar finished (%s), shows it in state %s: %q", k+1, c.C.Fin, m[1], rows[0])
		case k < first && m[1] != "run":
			return fmt.Sprintf("frame %d, drawn before the bar finished, shows it in state %s: %q", k+1, m[1], rows[0])
		case m[2] != want:
			return fmt.Sprintf("frame %d of %d (state %s): the filler shows %q, BarText.tla says %q", k+1, len(frames), m[1], m[2], want)
		}
	}
	return ""
}

// TestBarTextCases replays the cases of BarText.tla (lines `<<"BTXT", "json">>` printed by TLC) on real bars.
func TestBarTextCases(t *testing.T) {
	in := os.Getenv("VH_IN")
	if in == "" {
		t.Skip("VH_IN not set")
	}
	f, err := os.Open(in)
	if err != nil {
		t.Fatal(err)
	}
	defer f.Close()
	o, _ := os.Create(os.Getenv("VH_OUT"))
	defer o.Close()
	w := bufio.NewWriter(o)
	defer w.Flush()
	from, _ := strconv.Atoi(os.Getenv("VH_FROM"))
	step, _ := strconv.Atoi(os.Getenv("VH_STEP"))
	if step == 0 {
		step = 1
	}
	scn := bufio.NewScanner(f)
	scn.Buffer(make([]byte, 1<<20), 1<<24)
	n, idx := 0, -1
	for scn.Scan() {
		line := scn.Text()
		if !strings.HasPrefix(line, `<<"BTXT", "`) {
			continue
		}
		idx++
		if idx%step != from {
			continue
		}
		js := strings.ReplaceAll(strings.TrimSuffix(strings.TrimPrefix(line, `<<"BTXT", "`), `">>`), `\"`, `"`)
		var c BarTextCase
		if err := json.Unmarshal([]byte(js), &c); err != nil {
			t.Fatalf("case %d: %v: %s", idx, err, js)
		}
		n++
		if msg := runBarTextCase(&c); msg != "" {
			b, _ := json.Marshal(map[string]interface{}{"row": idx, "c": c.C, "msg": msg})
			w.Write(b)
			w.WriteByte('\n')
		}
	}
	fmt.Fprintf(w, "{\"done\":%d}\n", n)
}
