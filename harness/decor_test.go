package harness

import (
	"bufio"
	"encoding/json"
	"fmt"
	"io"
	"math"
	"math/big"
	"os"
	"regexp"
	"strconv"
	"strings"
	"testing"
	"testing/synctest"
	"time"

	"github.com/VividCortex/ewma"
	"github.com/acarl005/stripansi"
	"github.com/mattn/go-runewidth"
	"github.com/vbauerster/mpb/v8"
	"github.com/vbauerster/mpb/v8/decor"
)

type DecorCase struct {
	Kind string `json:"kind"`
	C    struct {
		Samples []struct {
			N   int64 `json:"n"`
			Dur int64 `json:"dur"`
		} `json:"samples"`
		Base, E, M, D int64
		H, S, Ms      int64
		Total, Cur    int64
		Ops           []int64 `json:"ops"`
		Durs          []int64 `json:"durs"`
		Which         string  `json:"which"`
		Par           int64   `json:"par"`
		Calls         []struct {
			Rem int64 `json:"rem"`
			Dt  int64 `json:"dt"`
		} `json:"calls"`
	} `json:"c"`
	Avg []struct {
		Num int64 `json:"num"`
		Den int64 `json:"den"`
	} `json:"avg"`
	Outs []int64 `json:"outs"`
	Adds []struct {
		Num int64 `json:"num"`
		Den int64 `json:"den"`
	} `json:"adds"`
	ZDur     int64 `json:"zDur"`
	Unit     int   `json:"unit"`
	InDomain bool  `json:"indomain"`
}

type recAvg struct{ adds []float64 }

func (r *recAvg) Add(v float64) { r.adds = append(r.adds, v) }
func (r *recAvg) Value() float64 {
	if len(r.adds) == 0 {
		return 0
	}
	return r.adds[len(r.adds)-1]
}
func (r *recAvg) Set(v float64) {}

var reNaN = regexp.MustCompile(`(?i)nan|inf`)

func wrapN(d decor.Decorator, n int) decor.Decorator {
	for k := 0; k < n; k++ {
		if k%2 == 0 {
			d = decor.OnComplete(d, "done")
		} else {
			d = decor.OnAbort(d, "aborted")
		}
	}
	return d
}

func widthOK(d decor.Decorator, st decor.Statistics) string {
	s, w := d.Decor(st)
	if got := runewidth.StringWidth(stripansi.Strip(s)); got != w {
		return fmt.Sprintf("decorator reports width %d for %q (display width %d)", w, s, got)
	}
	if reNaN.MatchString(s) {
		return fmt.Sprintf("decorator prints %q", s)
	}
	return ""
}

func checkEwma(c *DecorCase) string {
	for li, depth := range []int{0, 1, 3} {
		rs, re := &recAvg{}, &recAvg{}
		speed := decor.MovingAverageSpeed(decor.SizeB1024(0), "% .1f", rs)
		eta := decor.MovingAverageETA(decor.ET_STYLE_GO, re, nil)
		real := decor.EwmaSpeed(decor.SizeB1000(0), "% d", 30)
		p := mpb.New(mpb.WithOutput(io.Discard))
		// the decorators sit on either side of the bar, the two options in either order
		opts := [][]mpb.BarOption{
			{mpb.AppendDecorators(wrapN(speed, depth), wrapN(eta, depth), wrapN(real, depth))},
			{mpb.AppendDecorators(wrapN(speed, depth), wrapN(real, depth)), mpb.PrependDecorators(decor.Name("x"), wrapN(eta, depth))},
			{mpb.PrependDecorators(wrapN(speed, depth)), mpb.AppendDecorators(wrapN(eta, depth), wrapN(real, depth))},
		}[li]
		bar := p.AddBar(0, opts...)
		for _, s := range c.C.Samples {
			bar.EwmaIncrInt64(s.N, time.Duration(s.Dur)*time.Millisecond)
		}
		bar.Current() // the closures have run
		msg := ""
		for _, r := range []*recAvg{rs, re} {
			if len(r.adds) != len(c.Adds) {
				msg = fmt.Sprintf("wrapped %d deep: %d values reached the moving average, specification %d", depth, len(r.adds), len(c.Adds))
				break
			}
			for k, a := range c.Adds {
				want := float64(a.Num*int64(time.Millisecond)) / float64(a.Den)
				if r.adds[k] != want || math.IsNaN(r.adds[k]) || math.IsInf(r.adds[k], 0) {
					msg = fmt.Sprintf("wrapped %d deep: value %d handed to the moving average is %v, specification %v", depth, k, r.adds[k], want)
				}
			}
		}
		st := decor.Statistics{Total: 10, Current: 3, AvailableWidth: 80}
		for _, d := range []decor.Decorator{speed, eta, real} {
			if m := widthOK(d, st); m != "" && msg == "" {
				msg = m
			}
		}
		bar.Abort(false)
		p.Wait()
		if msg != "" {
			return msg
		}
	}
	return ""
}

// checkMedian replays a window case on decor.NewMedian() and on the ETA decorator whose default average it is:
// a sample of v seconds per item is one EwmaUpdate(1, v s); a reading is one Decor call with one item left.
func checkMedian(c *DecorCase) string {
	m := decor.NewMedian()
	eta := decor.MovingAverageETA(decor.ET_STYLE_GO, nil, nil)
	upd := eta.(decor.EwmaDecorator)
	k := 0
	for i, o := range c.C.Ops {
		if o != 0 {
			m.Add(float64(o))
			upd.EwmaUpdate(1, time.Duration(o)*time.Second)
			continue
		}
		if k >= len(c.Outs) {
			return "specification has fewer readings than the case"
		}
		want := c.Outs[k]
		k++
		if got := m.Value(); got != float64(want) {
			return fmt.Sprintf("reading %d (operation %d): NewMedian().Value() = %v, median of the last three samples is %d", k, i, got, want)
		}
		s, _ := eta.Decor(decor.Statistics{Total: 10, Current: 9})
		d, err := time.ParseDuration(s)
		if err != nil || d != time.Duration(want)*time.Second {
			return fmt.Sprintf("reading %d (operation %d): ETA with one item left prints %q, median of the last three samples is %ds", k, i, s, want)
		}
		if msg := widthOK(eta, decor.Statistics{Total: 10, Current: 9}); msg != "" {
			return msg
		}
	}
	return ""
}

// checkAvg: the EWMA decorators with the default age, fed one item per sample; after every sample the ETA for one
// remaining item and the speed must read back to the specification's average (the ETA is printed in whole seconds).
func checkAvg(c *DecorCase) string {
	eta := decor.EwmaETA(decor.ET_STYLE_GO, 0)
	speed := decor.EwmaSpeed(0, "%.6f", 0)
	for k, d := range c.C.Durs {
		for _, dd := range []decor.Decorator{eta, speed} {
			dd.(decor.EwmaDecorator).EwmaUpdate(1, time.Duration(d)*time.Second)
		}
		want := float64(c.Avg[k].Num) / float64(c.Avg[k].Den) // seconds per item
		s, _ := eta.Decor(decor.Statistics{Total: 10, Current: 9})
		got, err := time.ParseDuration(s)
		if err != nil || got.Seconds() > want+1e-6 || got.Seconds() < want-1-1e-6 {
			return fmt.Sprintf("after %d samples %v the ETA for one item prints %q, the average is %.4fs", k+1, c.C.Durs[:k+1], s, want)
		}
		s2, _ := speed.Decor(decor.Statistics{Total: 10, Current: 9})
		sp, err := strconv.ParseFloat(strings.TrimSuffix(strings.TrimSpace(s2), "/s"), 64)
		if err != nil || math.Abs(sp-1/want) > 1e-4 {
			return fmt.Sprintf("after %d samples %v the speed prints %q, the average is %.6f items/s", k+1, c.C.Durs[:k+1], s2, 1/want)
		}
		for _, dd := range []decor.Decorator{eta, speed} {
			if m := widthOK(dd, decor.Statistics{Total: 10, Current: 9}); m != "" {
				return m
			}
		}
	}
	return ""
}

var unitNames = map[int64][]string{1024: {"b", "KiB", "MiB", "GiB", "TiB"}, 1000: {"b", "KB", "MB", "GB", "TB"}}
var reSize = regexp.MustCompile(`^(\S+?) ?(b|[KMGT]i?B)(/s)?$`)

func checkSize(c *DecorCase) string {
	if !c.InDomain {
		return ""
	}
	v := new(big.Int).Exp(big.NewInt(c.C.Base), big.NewInt(c.C.E), nil)
	v.Mul(v, big.NewInt(c.C.M)).Add(v, big.NewInt(c.C.D))
	if c.C.E == 9 {
		// the top of the int64 range (Decor.tla: e = 9 stands for MaxInt64 + d)
		v = new(big.Int).Add(big.NewInt(math.MaxInt64), big.NewInt(c.C.D))
	}
	if !v.IsInt64() {
		return ""
	}
	x := v.Int64()
	unitDiv := new(big.Int).Exp(big.NewInt(c.C.Base), big.NewInt(int64(c.Unit)), nil)
	exact := new(big.Rat).SetFrac(v, unitDiv)
	ex, _ := exact.Float64()
	type vf struct {
		f   string
		tol float64 // absolute tolerance: half a unit of the last printed digit (0 = relative)
	}
	for _, f := range []vf{{"%d", 0.5}, {"% d", 0.5}, {"%.0f", 0.5}, {"%.1f", 0.05}, {"% .2f", 0.005}, {"%f", 0.5e-6}, {"%.3f", 0.0005},
		{"%e", 0}, {"%g", 0}, {"%s", 0.5}, {"%v", 0.5}, {"%.2e", 0}} {
		var s string
		func() {
			defer func() {
				if r := recover(); r != nil {
					s = fmt.Sprint("panic: ", r)
				}
			}()
			if c.C.Base == 1024 {
				s = fmt.Sprintf(f.f, decor.SizeB1024(x))
			} else {
				s = fmt.Sprintf(f.f, decor.SizeB1000(x))
			}
		}()
		m := reSize.FindStringSubmatch(s)
		if m == nil || reNaN.MatchString(s) {
			return fmt.Sprintf("%d with %s prints %q", x, f.f, s)
		}
		if want := unitNames[c.C.Base][c.Unit]; m[2] != want {
			return fmt.Sprintf("%d with %s prints %q: unit %s, the largest unit that fits is %s", x, f.f, s, m[2], want)
		}
		got, err := strconv.ParseFloat(m[1], 64)
		if err != nil {
			return fmt.Sprintf("%d with %s prints %q: number does not read back", x, f.f, s)
		}
		tol := f.tol
		if tol == 0 {
			tol = math.Abs(ex) * 1e-2 // %e/%g/%.2e: a few significant digits
			if f.f == "%e" || f.f == "%g" {
				tol = math.Abs(ex)*1e-6 + 1e-12
			}
		}
		if math.Abs(got-ex) > tol*(1+1e-9) {
			return fmt.Sprintf("%d with %s prints %q: reads back %v, true value %v", x, f.f, s, got, ex)
		}
	}
	// the counters and speed decorators use the same formatter
	var unit interface{} = decor.SizeB1024(0)
	if c.C.Base == 1000 {
		unit = decor.SizeB1000(0)
	}
	st := decor.Statistics{Total: x, Current: x, AvailableWidth: 200}
	for _, d := range []decor.Decorator{decor.Counters(unit, "% .1f / % .1f"), decor.CountersKibiByte("% .2f / % .2f"), decor.CountersKiloByte("%d / %d"),
		decor.Current(unit, "% d"), decor.Total(unit, "%.1f"), decor.InvertedCurrent(unit, "% d")} {
		if m := widthOK(d, st); m != "" {
			return m
		}
	}
	// every member of the counters family prints the quantity Decor.tla names for it (Quantity: current, total,
	// total - current), through the formatter checked above
	y := x / 3
	st = decor.Statistics{Total: x, Current: y, AvailableWidth: 200}
	size := func(v int64) interface{} {
		if c.C.Base == 1024 {
			return decor.SizeB1024(v)
		}
		return decor.SizeB1000(v)
	}
	byUnit := func(kibi, kilo func(string, ...decor.WC) decor.Decorator) func(string, ...decor.WC) decor.Decorator {
		if c.C.Base == 1024 {
			return kibi
		}
		return kilo
	}
	type fam struct {
		name string
		d    decor.Decorator
		want string
	}
	for _, f := range []string{"% .1f", "%d", ""} {
		uf, nf, pf, npf := f, f, f+" / "+f, f+" / "+f
		if f == "" {
			uf, nf, pf, npf = "% d", "%d", "% d / % d", "%d / %d" // the documented defaults
		}
		pin, pnin := pf, npf
		if f == "" {
			pin, pnin = "", ""
		}
		for _, m := range []fam{
			{"Counters", decor.Counters(unit, pin), fmt.Sprintf(pf, size(y), size(x))},
			{"Counters(KibiByte|KiloByte)", byUnit(decor.CountersKibiByte, decor.CountersKiloByte)(pin), fmt.Sprintf(pf, size(y), size(x))},
			{"CountersNoUnit", decor.CountersNoUnit(pnin), fmt.Sprintf(npf, y, x)},
			{"Current", decor.Current(unit, f), fmt.Sprintf(uf, size(y))},
			{"Current(KibiByte|KiloByte)", byUnit(decor.CurrentKibiByte, decor.CurrentKiloByte)(f), fmt.Sprintf(uf, size(y))},
			{"CurrentNoUnit", decor.CurrentNoUnit(f), fmt.Sprintf(nf, y)},
			{"Total", decor.Total(unit, f), fmt.Sprintf(uf, size(x))},
			{"Total(KibiByte|KiloByte)", byUnit(decor.TotalKibiByte, decor.TotalKiloByte)(f), fmt.Sprintf(uf, size(x))},
			{"TotalNoUnit", decor.TotalNoUnit(f), fmt.Sprintf(nf, x)},
			{"InvertedCurrent", decor.InvertedCurrent(unit, f), fmt.Sprintf(uf, size(x-y))},
			{"InvertedCurrent(KibiByte|KiloByte)", byUnit(decor.InvertedCurrentKibiByte, decor.InvertedCurrentKiloByte)(f), fmt.Sprintf(uf, size(x-y))},
			{"InvertedCurrentNoUnit", decor.InvertedCurrentNoUnit(f), fmt.Sprintf(nf, x-y)},
		} {
			if got, _ := m.d.Decor(st); got != m.want {
				return fmt.Sprintf("%s(%q) at current %d total %d prints %q, the true value prints as %q", m.name, f, y, x, got, m.want)
			}
			if msg := widthOK(m.d, st); msg != "" {
				return msg
			}
		}
	}
	return ""
}

// constAvg is a moving average that always answers one second per item: with it the raw estimate of the
// moving-average ETA decorator is (total - current) seconds.
type constAvg struct{}

func (constAvg) Add(float64)    {}
func (constAvg) Set(float64)    {}
func (constAvg) Value() float64 { return float64(time.Second) }

// checkNorm replays a normalizer case of Decor.tla on the fake clock of a synctest bubble: on the normalizer itself
// and on a second instance inside the moving-average ETA decorator (whose raw estimate is steered through Statistics).
func checkNorm(t *testing.T, c *DecorCase) string {
	msg := ""
	synctest.Test(t, func(t *testing.T) {
		mk := func() decor.TimeNormalizer {
			if c.C.Which == "fixed" {
				return decor.FixedIntervalTimeNormalizer(int(c.C.Par))
			}
			return decor.MaxTolerateTimeNormalizer(time.Duration(c.C.Par) * time.Second)
		}
		raw := mk()
		eta := decor.MovingAverageETA(decor.ET_STYLE_GO, constAvg{}, mk())
		if len(c.Outs) != len(c.C.Calls) {
			msg = "specification has another number of outputs than the case has calls"
			return
		}
		for k, call := range c.C.Calls {
			time.Sleep(time.Duration(call.Dt) * time.Second)
			want := time.Duration(c.Outs[k]) * time.Second
			if got := raw.Normalize(time.Duration(call.Rem) * time.Second); got != want && msg == "" {
				msg = fmt.Sprintf("call %d: Normalize(%ds) %ds after the call before returns %v, the specification says %v", k+1, call.Rem, call.Dt, got, want)
			}
			st := decor.Statistics{Total: call.Rem + 5, Current: 5}
			s, w := eta.Decor(st)
			if d, err := time.ParseDuration(s); (err != nil || d != want) && msg == "" {
				msg = fmt.Sprintf("call %d: the ETA decorator with %d items left at 1s per item prints %q, the specification says %v", k+1, call.Rem, s, want)
			}
			if w != runewidth.StringWidth(s) && msg == "" {
				msg = fmt.Sprintf("call %d: the ETA decorator reports width %d for %q", k+1, w, s)
			}
		}
	})
	return msg
}

func checkTime(t *testing.T, c *DecorCase) string {
	msg := ""
	synctest.Test(t, func(t *testing.T) {
		d := time.Duration(c.C.H)*time.Hour + time.Duration(c.C.M)*time.Minute + time.Duration(c.C.S)*time.Second + time.Duration(c.C.Ms)*time.Millisecond
		want := map[decor.TimeStyle]string{
			decor.ET_STYLE_HHMMSS: fmt.Sprintf("%02d:%02d:%02d", c.C.H, c.C.M, c.C.S),
			decor.ET_STYLE_HHMM:   fmt.Sprintf("%02d:%02d", c.C.H, c.C.M),
			decor.ET_STYLE_MMSS:   fmt.Sprintf("%02d:%02d", c.C.M, c.C.S),
			decor.ET_STYLE_GO:     d.Truncate(time.Second).String(),
		}
		if c.C.H > 0 {
			want[decor.ET_STYLE_MMSS] = want[decor.ET_STYLE_HHMMSS]
		}
		for style, w := range want {
			start := time.Now().Add(-d) // the fake clock has moved on in the previous round
			el := decor.NewElapsed(style, start)
			s, _ := el.Decor(decor.Statistics{Total: 2, Current: 1})
			if s != w {
				msg = fmt.Sprintf("elapsed %v in style %d prints %q, true value %q", d, style, s, w)
			}
			// one item took d: the remaining one takes d
			eta := decor.NewAverageETA(style, start, nil)
			s2, _ := eta.Decor(decor.Statistics{Total: 2, Current: 1})
			if s2 != w {
				msg = fmt.Sprintf("ETA %v in style %d prints %q, true value %q", d, style, s2, w)
			}
			for _, dd := range []decor.Decorator{el, eta} {
				if m := widthOK(dd, decor.Statistics{Total: 2, Current: 1}); m != "" {
					msg = m
				}
			}
			// frozen after completion / abort
			time.Sleep(7 * time.Second)
			a, _ := el.Decor(decor.Statistics{Total: 2, Current: 2, Completed: true})
			time.Sleep(7 * time.Second)
			b, _ := el.Decor(decor.Statistics{Total: 2, Current: 2, Completed: true})
			if a != b {
				msg = fmt.Sprintf("elapsed keeps changing after completion: %q then %q", a, b)
			}
			sp := decor.NewAverageSpeed(decor.SizeB1024(0), "% .2f", start)
			sp.Decor(decor.Statistics{Total: 2048, Current: 1024})
			time.Sleep(3 * time.Second)
			a, _ = sp.Decor(decor.Statistics{Total: 2048, Current: 2048, Completed: true})
			time.Sleep(3 * time.Second)
			b, _ = sp.Decor(decor.Statistics{Total: 2048, Current: 2048, Completed: true})
			if a != b {
				msg = fmt.Sprintf("average speed keeps changing after completion: %q then %q", a, b)
			}
			if d > 0 {
				// the speed itself: 1024 bytes in d
				sp2 := decor.NewAverageSpeed(0, "%.6f", time.Now().Add(-d))
				s3, _ := sp2.Decor(decor.Statistics{Total: 2048, Current: 1024})
				got, err := strconv.ParseFloat(s3, 64)
				true_ := 1024 / d.Seconds()
				if err != nil || math.Abs(got-true_) > 1e-6+true_*1e-9 {
					msg = fmt.Sprintf("average speed over %v prints %q, true value %v", d, s3, true_)
				}
			}
		}
	})
	return msg
}

func checkPct(c *DecorCase) string {
	if c.C.Cur > c.C.Total {
		return ""
	}
	exact := 100 * float64(c.C.Cur) / float64(c.C.Total)
	for _, f := range []struct {
		f   string
		tol float64
	}{{"% d", 0.5}, {"%d", 0.5}, {"%.1f", 0.05}, {"% .2f", 0.005}, {"%f", 0.5e-6}, {"", 0.5}} {
		d := decor.NewPercentage(f.f)
		s, _ := d.Decor(decor.Statistics{Total: c.C.Total, Current: c.C.Cur})
		num := strings.TrimSuffix(strings.TrimSuffix(s, "%"), " ")
		got, err := strconv.ParseFloat(strings.TrimSpace(num), 64)
		if err != nil || !strings.HasSuffix(s, "%") || reNaN.MatchString(s) {
			return fmt.Sprintf("percentage %d/%d with %q prints %q", c.C.Cur, c.C.Total, f.f, s)
		}
		if math.Abs(got-exact) > f.tol*(1+1e-9) {
			return fmt.Sprintf("percentage %d/%d with %q prints %q, true value %v", c.C.Cur, c.C.Total, f.f, s, exact)
		}
		if m := widthOK(d, decor.Statistics{Total: c.C.Total, Current: c.C.Cur}); m != "" {
			return m
		}
	}
	// the same at the top of the int64 range
	const maxI = int64(^uint64(0) >> 1)
	k := maxI / c.C.Total
	d := decor.NewPercentage("%.3f")
	s, _ := d.Decor(decor.Statistics{Total: c.C.Total * k, Current: c.C.Cur * k})
	got, err := strconv.ParseFloat(strings.TrimSuffix(s, "%"), 64)
	if err != nil || math.Abs(got-exact) > 0.0005*(1+1e-6) {
		return fmt.Sprintf("percentage %d/%d prints %q, true value %v", c.C.Cur*k, c.C.Total*k, s, exact)
	}
	return ""
}

var _ = ewma.NewMovingAverage

func TestDecorCases(t *testing.T) {
	in := os.Getenv("VH_IN")
	if in == "" {
		t.Skip("VH_IN not set")
	}
	f, err := os.Open(in)
	if err != nil {
		t.Fatal(err)
	}
	defer f.Close()
	o, _ := os.Create(os.Getenv("VH_OUT"))
	defer o.Close()
	w := bufio.NewWriter(o)
	defer w.Flush()
	from, _ := strconv.Atoi(os.Getenv("VH_FROM"))
	step, _ := strconv.Atoi(os.Getenv("VH_STEP"))
	if step == 0 {
		step = 1
	}
	scn := bufio.NewScanner(f)
	scn.Buffer(make([]byte, 1<<20), 1<<24)
	n, idx := 0, -1
	for scn.Scan() {
		line := scn.Text()
		if !strings.HasPrefix(line, `<<"DECOR", "`) {
			continue
		}
		idx++
		if idx%step != from {
			continue
		}
		js := strings.ReplaceAll(strings.TrimSuffix(strings.TrimPrefix(line, `<<"DECOR", "`), `">>`), `\"`, `"`)
		var c DecorCase
		if err := json.Unmarshal([]byte(js), &c); err != nil {
			t.Fatalf("case %d: %v: %s", idx, err, js)
		}
		n++
		msg := ""
		func() {
			defer func() {
				if r := recover(); r != nil {
					msg = fmt.Sprint("panic: ", r)
				}
			}()
			switch c.Kind {
			case "ewma":
				msg = checkEwma(&c)
			case "size":
				msg = checkSize(&c)
			case "time":
				msg = checkTime(t, &c)
			case "pct":
				msg = checkPct(&c)
			case "median":
				msg = checkMedian(&c)
			case "avg":
				msg = checkAvg(&c)
			case "norm":
				msg = checkNorm(t, &c)
			}
		}()
		if msg != "" {
			b, _ := json.Marshal(map[string]interface{}{"row": idx, "kind": c.Kind, "c": c.C, "msg": msg})
			w.Write(b)
			w.WriteByte('\n')
		}
	}
	fmt.Fprintf(w, "{\"done\":%d}\n", n)
}
