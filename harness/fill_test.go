package harness

import (
	"bufio"
	"bytes"
	"encoding/json"
	"fmt"
	"math/big"
	"math/rand"
	"os"
	"regexp"
	"strconv"
	"strings"
	"testing"
	"time"
	"unicode/utf8"

	"github.com/mattn/go-runewidth"
	"github.com/vbauerster/mpb/v8"
	"github.com/vbauerster/mpb/v8/decor"
)

// One row of the table TLC computes from Fill.tla: the parameters of a call and what the
// specification says the filler emits.
type FillRow struct {
	P struct {
		Total, Current, Refill   int64
		Req, Avail               int
		Lbw, Rbw, Fw, Rw, Pw, Tw int
		Completed, TipOnComplete bool
	} `json:"p"`
	NFiller   int   `json:"nFiller"`
	NRefiller int   `json:"nRefiller"`
	NPad      int   `json:"nPad"`
	NEll      int   `json:"nEll"`
	Spin      int   `json:"spin"`
	SpinSeq   []int `json:"spinseq"`
	Tip       bool  `json:"tip"`
	Out       int   `json:"out"`
	Width     int   `json:"width"`
}

// palettes: for every display width a string of that width, distinct per component.
// Variant 1 uses non-empty zero-width runes for width 0.
var palette = map[string][2][3]string{
	"lb":  {{"", "[", "\u3010"}, {"\u200b", "{", "\u300a"}},
	"rb":  {{"", "]", "\u3011"}, {"\u200b", "}", "\u300b"}},
	"f":   {{"", "=", "\uff1d"}, {"\u200c", "#", "\uff03"}},
	"r":   {{"", "+", "\uff0b"}, {"\u200d", "*", "\uff0a"}},
	"pad": {{"", "-", "\uff0d"}, {"\u00ad", "_", "\uff3f"}},
	"tip": {{"", ">", "\uff1e"}, {"\u034f", "@", "\uff20"}},
}

func paletteOK() string {
	for k, v := range palette {
		for vi := 0; vi < 2; vi++ {
			for w := 0; w < 3; w++ {
				if runewidth.StringWidth(v[vi][w]) != w {
					return fmt.Sprintf("palette %s[%d][%d]=%q has width %d", k, vi, w, v[vi][w], runewidth.StringWidth(v[vi][w]))
				}
			}
		}
	}
	return ""
}

type fillResult struct {
	out  string
	err  error
	hung bool
}

func callFill(f mpb.BarFiller, st decor.Statistics) fillResult {
	ch := make(chan fillResult, 1)
	go func() {
		var buf bytes.Buffer
		err := f.Fill(&buf, st)
		ch <- fillResult{out: buf.String(), err: err}
	}()
	select {
	case r := <-ch:
		return r
	case <-time.After(1500 * time.Millisecond):
		return fillResult{hung: true}
	}
}

func checkRow(r *FillRow, variant int, rev bool) string {
	pal := func(k string, w int) string { return palette[k][variant][w] }
	bs := mpb.BarStyle().Lbound(pal("lb", r.P.Lbw)).Rbound(pal("rb", r.P.Rbw)).Filler(pal("f", r.P.Fw)).
		Refiller(pal("r", r.P.Rw)).Padding(pal("pad", r.P.Pw)).Tip(pal("tip", r.P.Tw))
	if r.P.TipOnComplete {
		bs = bs.TipOnComplete()
	}
	if rev {
		bs = bs.Reverse()
	}
	st := decor.Statistics{AvailableWidth: r.P.Avail, RequestedWidth: r.P.Req, Total: r.P.Total, Current: r.P.Current,
		Refill: r.P.Refill, Completed: r.P.Completed}
	res := callFill(bs.Build(), st)
	if res.hung {
		return "does-not-terminate"
	}
	if res.err != nil {
		return "error:" + res.err.Error()
	}
	if !utf8.ValidString(res.out) {
		return "invalid-utf8"
	}
	if variant == 0 && !rev {
		// a bar filler with a single tip frame has no memory: what it draws for these statistics does not depend on
		// the frames it has drawn before (full progress with a refill mark; the same counters under another total)
		full := st
		full.Total = max(st.Total, 1)
		full.Current, full.Refill = full.Total, full.Total/2
		other := st
		other.Total = st.Total + 1
		for k, earlier := range []decor.Statistics{full, other} {
			f2 := bs.Build()
			if r1 := callFill(f2, earlier); r1.hung {
				continue
			}
			if r2 := callFill(f2, st); !r2.hung && r2.out != res.out {
				return fmt.Sprintf("after an earlier frame (%d: total %d current %d refill %d) the same statistics draw %q, a fresh filler draws %q",
					k, earlier.Total, earlier.Current, earlier.Refill, r2.out, res.out)
			}
		}
	}
	// Meta functions only decorate: with every component wrapped in its own colour the same cells are drawn, and each
	// coloured section holds nothing but its own component
	col := func(c int) func(string) string {
		return func(s string) string { return fmt.Sprintf("\x1b[3%dm%s\x1b[0m", c, s) }
	}
	cres := callFill(bsWith(bs, col).Build(), st)
	if cres.hung {
		return "does-not-terminate (with Meta functions)"
	}
	if plain := ansiRE.ReplaceAllString(cres.out, ""); cres.err != nil || plain != res.out {
		return fmt.Sprintf("with Meta functions that add only colour the filler draws %q, without them %q", cres.out, res.out)
	}
	if w := runewidth.StringWidth(res.out); w != r.Out {
		return fmt.Sprintf("width %d, specification %d (%q)", w, r.Out, res.out)
	}
	cnt := func(k string, w int) int {
		s := pal(k, w)
		if s == "" {
			return -1
		}
		return strings.Count(res.out, s)
	}
	if c := cnt("f", r.P.Fw); c >= 0 && c != r.NFiller {
		return fmt.Sprintf("filler x%d, specification x%d (%q)", c, r.NFiller, res.out)
	}
	if c := cnt("r", r.P.Rw); c >= 0 && c != r.NRefiller {
		return fmt.Sprintf("refiller x%d, specification x%d (%q)", c, r.NRefiller, res.out)
	}
	if c := cnt("pad", r.P.Pw); c >= 0 && c != r.NPad {
		return fmt.Sprintf("padding x%d, specification x%d (%q)", c, r.NPad, res.out)
	}
	if c := strings.Count(res.out, "…"); c != r.NEll {
		return fmt.Sprintf("ellipsis x%d, specification x%d (%q)", c, r.NEll, res.out)
	}
	if c := cnt("tip", r.P.Tw); c >= 0 && (c == 1) != r.Tip {
		return fmt.Sprintf("tip x%d, specification %v (%q)", c, r.Tip, res.out)
	}
	return ""
}

var ansiRE = regexp.MustCompile("\x1b\\[[0-9;]*m")

func bsWith(bs mpb.BarStyleComposer, col func(int) func(string) string) mpb.BarStyleComposer {
	return bs.LboundMeta(col(1)).RboundMeta(col(2)).FillerMeta(col(3)).RefillerMeta(col(4)).PaddingMeta(col(5)).TipMeta(col(6))
}

// the spinner filler with a frame as wide as the row's tip, in its three positions
func checkSpinner(r *FillRow) string {
	frame := palette["tip"][0][r.P.Tw]
	st := decor.Statistics{AvailableWidth: r.P.Avail, RequestedWidth: r.P.Req, Total: r.P.Total, Current: r.P.Current}
	for i, ss := range []mpb.SpinnerStyleComposer{mpb.SpinnerStyle(frame), mpb.SpinnerStyle(frame).PositionLeft(), mpb.SpinnerStyle(frame).PositionRight()} {
		if frame == "" && i > 0 {
			continue
		}
		res := callFill(ss.Build(), st)
		if res.hung {
			return "spinner does-not-terminate"
		}
		if w := runewidth.StringWidth(res.out); w != r.Spin {
			return fmt.Sprintf("spinner width %d, specification %d (%q)", w, r.Spin, res.out)
		}
		// a Meta function that only adds colour leaves the cells as they are
		cres := callFill(ss.Meta(func(s string) string { return "\x1b[31;1m" + s + "\x1b[0m" }).Build(), st)
		if cres.hung {
			return "spinner does-not-terminate (with a Meta function)"
		}
		if plain := ansiRE.ReplaceAllString(cres.out, ""); plain != res.out {
			return fmt.Sprintf("spinner with a Meta function that adds only colour draws %q, without it %q", cres.out, res.out)
		}
	}
	// frames of different widths, drawn one after the other by the same filler
	frames := []string{palette["tip"][0][r.P.Tw], palette["pad"][0][r.P.Pw], palette["r"][0][r.P.Rw]}
	for i, ss := range []mpb.SpinnerStyleComposer{mpb.SpinnerStyle(frames...), mpb.SpinnerStyle(frames...).PositionLeft(), mpb.SpinnerStyle(frames...).PositionRight()} {
		f := ss.Build()
		for k, want := range r.SpinSeq {
			res := callFill(f, st)
			if res.hung {
				return "spinner does-not-terminate"
			}
			if w := runewidth.StringWidth(res.out); w != want {
				return fmt.Sprintf("spinner (position %d) call %d: frame %q drawn %d wide, specification %d (%q)", i, k+1, frames[k%3], w, want, res.out)
			}
		}
	}
	return ""
}

// TestShareGrid replays the table of FillArith.tla (lines `<<"AR", "json">>`) at several scales:
// the share is homogeneous in (total, current).
func TestShareGrid(t *testing.T) {
	in := os.Getenv("VH_IN")
	if in == "" {
		t.Skip("VH_IN not set")
	}
	f, err := os.Open(in)
	if err != nil {
		t.Fatal(err)
	}
	defer f.Close()
	o, _ := os.Create(os.Getenv("VH_OUT"))
	defer o.Close()
	w := bufio.NewWriter(o)
	defer w.Flush()
	scn := bufio.NewScanner(f)
	scn.Buffer(make([]byte, 1<<20), 1<<24)
	n, bad := 0, 0
	const maxI = int64(^uint64(0) >> 1)
	for scn.Scan() {
		line := scn.Text()
		if !strings.HasPrefix(line, `<<"AR", "`) {
			continue
		}
		js := strings.ReplaceAll(strings.TrimSuffix(strings.TrimPrefix(line, `<<"AR", "`), `">>`), `\"`, `"`)
		var row struct {
			T int64 `json:"t"`
			W int   `json:"w"`
			V []int `json:"v"`
		}
		if err := json.Unmarshal([]byte(js), &row); err != nil {
			t.Fatalf("%v: %s", err, js)
		}
		for _, k := range []int64{1, 1 << 20, 1 << 40, maxI / (row.T + 1)} {
			for c, want := range row.V {
				n++
				got, ok := share(row.T*k, int64(c)*k, row.W)
				if ok && got != want && k > 1 {
					// at large scales binary floating point cannot tell an exact half from its
					// neighbours; either neighbouring cell is "the nearest cell" then
					lo, hi := exactShare(row.T*k, int64(c)*k, row.W)
					if got >= lo && got <= hi {
						got = want
					}
				}
				if !ok || got != want {
					bad++
					if bad <= 20 {
						b, _ := json.Marshal(map[string]interface{}{"total": row.T * k, "current": int64(c) * k, "width": row.W, "got": got, "want": want})
						w.Write(b)
						w.WriteByte('\n')
					}
				}
			}
		}
	}
	fmt.Fprintf(w, "{\"done\":%d,\"bad\":%d}\n", n, bad)
}

// TestFillRows replays the rows of $VH_IN (lines `<<"ROW", "json">>` printed by TLC) on the real filler.
func TestFillRows(t *testing.T) {
	in := os.Getenv("VH_IN")
	if in == "" {
		t.Skip("VH_IN not set")
	}
	f, err := os.Open(in)
	if err != nil {
		t.Fatal(err)
	}
	defer f.Close()
	o, _ := os.Create(os.Getenv("VH_OUT"))
	defer o.Close()
	w := bufio.NewWriter(o)
	defer w.Flush()
	if m := paletteOK(); m != "" {
		t.Fatal(m)
	}
	from, _ := strconv.Atoi(os.Getenv("VH_FROM"))
	step, _ := strconv.Atoi(os.Getenv("VH_STEP"))
	if step == 0 {
		step = 1
	}
	scn := bufio.NewScanner(f)
	scn.Buffer(make([]byte, 1<<20), 1<<24)
	n, idx, hung := 0, -1, 0
	for scn.Scan() {
		line := scn.Text()
		if !strings.HasPrefix(line, `<<"ROW", "`) {
			continue
		}
		idx++
		if idx%step != from {
			continue
		}
		js := strings.TrimSuffix(strings.TrimPrefix(line, `<<"ROW", "`), `">>`)
		js = strings.ReplaceAll(js, `\"`, `"`)
		var r FillRow
		if err := json.Unmarshal([]byte(js), &r); err != nil {
			t.Fatalf("row %d: %v: %s", idx, err, js)
		}
		n++
		if msg := checkSpinner(&r); msg != "" {
			b, _ := json.Marshal(map[string]interface{}{"row": idx, "p": r.P, "msg": msg})
			w.Write(b)
			w.WriteByte('\n')
		}
		for variant := 0; variant < 2; variant++ {
			for _, rev := range []bool{false, true} {
				if msg := checkRow(&r, variant, rev); msg != "" {
					b, _ := json.Marshal(map[string]interface{}{"row": idx, "variant": variant, "rev": rev, "p": r.P, "msg": msg})
					w.Write(b)
					w.WriteByte('\n')
					if msg == "does-not-terminate" {
						hung++
						if hung > 3 {
							// a spinning Fill goroutine cannot be stopped: give up this worker
							w.Flush()
							fmt.Fprintf(w, "{\"done\":%d,\"aborted\":true}\n", n)
							w.Flush()
							os.Exit(0)
						}
					}
				}
			}
		}
	}
	fmt.Fprintf(w, "{\"done\":%d}\n", n)
}

// share observes internal.PercentageRound through the public filler: 1-column filler, no
// brackets, no tip; the number of filler runes is the filled share of the inner width.
func share(total, current int64, width int) (int, bool) {
	f := mpb.BarStyle().Lbound("").Rbound("").Tip("").Filler("=").Padding("-").Build()
	res := callFill(f, decor.Statistics{AvailableWidth: width, Total: total, Current: current})
	if res.hung || res.err != nil {
		return -1, false
	}
	return strings.Count(res.out, "="), true
}

// exactShare is the statement of C08 in exact arithmetic: width*current/total rounded half away from zero.
func exactShare(total, current int64, width int) (lo, hi int) {
	if total <= 0 || current <= 0 {
		return 0, 0
	}
	if current >= total {
		return width, width
	}
	num := new(big.Int).Mul(big.NewInt(int64(width)), big.NewInt(current))
	num.Mul(num, big.NewInt(2)).Add(num, big.NewInt(total))
	den := new(big.Int).Mul(big.NewInt(2), big.NewInt(total))
	q, rem := new(big.Int).QuoRem(num, den, new(big.Int))
	v := int(q.Int64())
	// binary floating point cannot tell an exact half from its neighbours at this magnitude:
	// when the exact value is within 2^-40 of a half both roundings are accepted
	lo, hi = v, v
	tol := new(big.Int).Rsh(den, 40)
	if rem.Cmp(tol) <= 0 && v > 0 {
		lo = v - 1
	}
	if new(big.Int).Sub(den, rem).Cmp(tol) <= 0 {
		hi = v + 1
	}
	return lo, hi
}

// TestShare: random and boundary int64 triples, judged by exact arithmetic, plus monotonicity on pairs.
func TestShare(t *testing.T) {
	outp := os.Getenv("VH_OUT")
	if outp == "" {
		t.Skip("VH_OUT not set")
	}
	seed, _ := strconv.ParseInt(os.Getenv("VH_SEED"), 10, 64)
	n, _ := strconv.Atoi(os.Getenv("VH_N"))
	rng := rand.New(rand.NewSource(seed))
	o, _ := os.Create(outp)
	defer o.Close()
	w := bufio.NewWriter(o)
	defer w.Flush()
	const maxI = int64(^uint64(0) >> 1)
	pick := func() int64 {
		switch rng.Intn(6) {
		case 0:
			return rng.Int63n(1000)
		case 1:
			return maxI - rng.Int63n(1000)
		case 2:
			return maxI/2 + rng.Int63n(2001) - 1000
		case 3:
			return int64(1) << uint(rng.Intn(63))
		case 4:
			return -rng.Int63n(5)
		}
		return rng.Int63()
	}
	bad := 0
	for i := 0; i < n; i++ {
		total, width := pick(), rng.Intn(200)
		c1 := pick()
		if total > 0 && rng.Intn(2) == 0 {
			c1 = rng.Int63n(total) // most interesting: 0 <= current < total
		}
		c2 := c1
		if c1 >= 0 && c1 < maxI-1 {
			c2 = c1 + rng.Int63n(maxI-c1)
			if rng.Intn(2) == 0 && total > c1+1 {
				c2 = c1 + rng.Int63n(total-c1)
			}
		}
		s1, ok1 := share(total, c1, width)
		s2, ok2 := share(total, c2, width)
		msg := ""
		lo, hi := exactShare(total, c1, width)
		switch {
		case !ok1 || !ok2:
			msg = "fill failed"
		case s1 < lo || s1 > hi:
			msg = fmt.Sprintf("filled %d cells, exact share is %d..%d", s1, lo, hi)
		case c1 >= 0 && c1 <= c2 && s1 > s2:
			msg = fmt.Sprintf("not monotone: current %d -> %d cells, current %d -> %d cells", c1, s1, c2, s2)
		}
		if msg != "" {
			bad++
			if bad <= 20 {
				b, _ := json.Marshal(map[string]interface{}{"total": total, "c1": c1, "c2": c2, "width": width, "msg": msg})
				w.Write(b)
				w.WriteByte('\n')
			}
		}
	}
	fmt.Fprintf(w, "{\"done\":%d,\"bad\":%d}\n", n, bad)
}
