package harness

// RunFree is filled in by free.go's real implementation (race and linearizability runs).
func RunFree(sc *Scenario) ([]Event, string) { return nil, "" }
