package harness

import (
	"context"
	"encoding/json"
	"math/rand"
	"runtime"
	"strings"
	"sync"
	"time"

	"github.com/vbauerster/mpb/v8"
)

// RunFree executes a scenario without gates and outside a synctest bubble: real goroutines,
// real (short) refresh period, seeded yields between client calls.  It reaches the races
// the gate scheduler cannot order (goroutine start-up, data races under -race) and feeds
// the same monitors.
func RunFree(sc *Scenario) (events []Event, fatal string) {
	r := &run{sc: sc, barPtr: map[uintptr]string{}, bars: map[string]*barInfo{}, chanName: map[chan int]string{},
		goidCl: map[string]int{}, free: true}
	r.cond = sync.NewCond(&r.mu)
	r.rng = rand.New(rand.NewSource(sc.Sched.Seed))
	r.clDone = make([]bool, len(sc.Clients))
	r.clPC = make([]int, len(sc.Clients))
	for _, cl := range sc.Clients {
		for _, op := range cl {
			if op.Op == "wait" {
				break
			}
			if op.Op == "add" {
				r.addsLeft++
			}
		}
	}
	cfgj, _ := json.Marshal(sc.Cfg)
	var cfgm map[string]interface{}
	json.Unmarshal(cfgj, &cfgm)
	r.rec(Event{"ev": "begin", "cfg": cfgm, "family": sc.Family, "nclients": len(sc.Clients), "mode": "free"})
	mpb.SetVerifHook(r.freeHook)
	defer mpb.SetVerifHook(nil)
	r.stop = make(chan struct{})
	r.outW = &outRec{r: r}
	r.dbg = &dbgRec{r: r}
	rate := 2 * time.Millisecond
	opts := []mpb.ContainerOption{mpb.WithOutput(r.outW), mpb.WithDebugOutput(r.dbg), mpb.WithRefreshRate(rate)}
	if sc.Cfg.Q >= 0 {
		opts = append(opts, mpb.WithQueueLen(sc.Cfg.Q))
	}
	if sc.Cfg.UWG && len(sc.Clients) > 1 {
		r.uwg = &sync.WaitGroup{}
		r.uwgDone = map[int]bool{}
		r.uwg.Add(len(sc.Clients) - 1)
		opts = append(opts, mpb.WithWaitGroup(r.uwg))
	}
	if sc.Cfg.Width > 0 {
		opts = append(opts, mpb.WithWidth(sc.Cfg.Width))
	}
	switch sc.Cfg.Refresh {
	case "auto":
		opts = append(opts, mpb.WithAutoRefresh())
	case "manual":
		r.manual = make(chan interface{})
		r.noMoreRefresh = make(chan struct{})
		opts = append(opts, mpb.WithManualRefresh(r.manual))
		if sc.Cfg.AutoToo {
			opts = append(opts, mpb.WithAutoRefresh())
		}
	}
	if sc.Cfg.Pop {
		opts = append(opts, mpb.PopCompletedMode())
	}
	nvals := 0
	notifDone := make(chan struct{})
	if sc.Cfg.Notifier {
		r.notif = make(chan interface{})
		opts = append(opts, mpb.WithShutdownNotifier(r.notif))
		go func() {
			defer close(notifDone)
			for {
				select {
				case v := <-r.notif:
					nvals++
					names := []string{}
					if bars, ok := v.([]*mpb.Bar); ok {
						for _, b := range bars {
							names = append(names, r.barOfPtr(ptrOf(b)))
						}
					}
					r.rec(Event{"ev": "notify", "bars": names, "nth": nvals})
				case <-r.stop:
					return
				}
			}
		}()
	} else {
		close(notifDone)
	}
	ctx := context.Background()
	if sc.Cfg.Ctx {
		ctx, r.cancel = context.WithCancel(ctx)
	}
	r.p = mpb.NewWithContext(ctx, opts...)
	var wg sync.WaitGroup
	for c := range sc.Clients {
		wg.Add(1)
		seed := sc.Sched.Seed + int64(c)*7919
		go func(c int) {
			defer wg.Done()
			r.freeClient(c, rand.New(rand.NewSource(seed)))
		}(c)
	}
	done := make(chan struct{})
	go func() { wg.Wait(); close(done) }()
	select {
	case <-done:
	case <-time.After(20 * time.Second):
		r.rec(Event{"ev": "hang", "kind": "timeout", "pending": r.pendingCalls(), "parked": []string{}, "goroutines": libGoroutines(), "infmt": false,
			"wpend": strings.Contains(strings.Join(r.pendingCalls(), " "), ":write:")})
		r.rec(Event{"ev": "end"})
		exitNow(r.events)
		return r.events, "hang"
	}
	if sc.Cfg.Notifier {
		time.Sleep(2 * time.Millisecond)
	}
	nf := r.nFrames()
	// settle: library goroutines may need a moment to notice the cancellation
	var leaks []string
	for i := 0; i < 200; i++ {
		leaks = leaks[:0]
		for _, g := range libGoroutines() {
			leaks = append(leaks, g)
		}
		if len(leaks) == 0 {
			break
		}
		time.Sleep(5 * time.Millisecond)
	}
	time.Sleep(3 * rate)
	if r.nFrames() != nf {
		r.rec(Event{"ev": "latewrite", "n": r.nFrames() - nf})
	}
	close(r.stop)
	<-notifDone
	if leaks == nil {
		leaks = []string{}
	}
	allfmt := true
	for _, g := range leaks {
		if i := strings.Index(g, "]: "); i < 0 || !strings.HasPrefix(g[i+3:], "/decor.WC.Format") {
			allfmt = false
		}
	}
	r.rec(Event{"ev": "quiesce", "leaks": leaks, "nleaks": len(leaks), "notified": nvals, "allfmt": allfmt})
	if r.cancel != nil {
		r.cancel()
	}
	r.rec(Event{"ev": "end"})
	if len(leaks) > 0 {
		fatal = "leak" // keep later scenarios clean: the worker is recycled
	}
	return r.events, fatal
}

// freeHook only observes; it never parks.  A seeded fraction of the points yield the processor
// so that neighbouring goroutines overtake.
func (r *run) freeHook(point string, args ...interface{}) {
	switch point {
	case "ct:hm":
		if args[0].(int) == 0 {
			r.rec(Event{"ev": "cycle"})
		}
	case "ls:tick":
		r.rec(Event{"ev": "tickfwd"})
	case "ls:done":
		r.mu.Lock()
		r.lsDone = true
		r.mu.Unlock()
	case "dp:send":
		r.rec(Event{"ev": "detached", "b": r.barOf(args[0], false)})
	case "ct:push":
		r.barOf(args[0], true)
	case "pw:cancel":
		r.mu.Lock()
		r.closing = true
		r.mu.Unlock()
		r.rec(Event{"ev": "closing"})
	}
	r.mu.Lock()
	y := r.rng.Intn(4) == 0
	r.mu.Unlock()
	if y {
		runtime.Gosched()
	}
}

func (r *run) freeClient(c int, rng *rand.Rand) {
	ops := r.sc.Clients[c]
	for i := range ops {
		op := &ops[i]
		// wait until the call makes sense (the bar it names exists; Wait after every Add)
		g := &gate{client: c, opIdx: i}
		for n := 0; !r.eligible(g); n++ {
			if n > 20000 {
				return
			}
			time.Sleep(50 * time.Microsecond)
		}
		switch rng.Intn(4) {
		case 0:
			runtime.Gosched()
		case 1:
			time.Sleep(time.Duration(rng.Intn(1500)) * time.Microsecond)
		}
		if op.Op == "wait" {
			r.workerDone(c)
		}
		r.exec(c, i, op)
		r.mu.Lock()
		r.clPC[c] = i + 1
		r.mu.Unlock()
	}
	r.workerDone(c)
	r.mu.Lock()
	r.clDone[c] = true
	r.mu.Unlock()
}
