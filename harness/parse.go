package harness

import (
	"regexp"
	"strconv"
	"strings"

	"github.com/mattn/go-runewidth"
)

var (
	reCUU    = regexp.MustCompile(`^\x1b\[(\d+)A\x1b\[J`)
	reAnsi   = regexp.MustCompile(`\x1b\[[0-9;]*[A-Za-z]`)
	reFill   = regexp.MustCompile(`<(b\d+)\|(-?\d+)\|(-?\d+)\|([CA-]+)\|(-?\d+)>`)
	reExt    = regexp.MustCompile(`^\|(b\d+):e(\d+)\|$`)
	reText   = regexp.MustCompile(`^T\|`)
	reTokPfx = regexp.MustCompile(`^(?:T\|[a-z0-9]+\|[0-9]+)+`)
	reTok    = regexp.MustCompile(`T\|[a-z0-9]+\|[0-9]+`)
	reDecTok = regexp.MustCompile(`\((b\d+)([pa])(\d+)((?:x\x{0301}?|世)*|!C|!A|!E)\)`)
)

// parseFrame turns the bytes of one Write on the output into a frame event:
// cursor-up count, text lines, and one group per bar in top-to-bottom order.
func parseFrame(p []byte) Event {
	s := string(p)
	e := Event{"len": len(p)}
	cuu := 0
	if m := reCUU.FindStringSubmatch(s); m != nil {
		cuu, _ = strconv.Atoi(m[1])
		if cuu < 1 {
			cuu = 1 // terminals execute "cursor up 0" as "cursor up 1" (the parameter's default)
		}
		s = s[len(m[0]):]
	}
	e["cuu"] = cuu
	malformed := []string{}
	if strings.Contains(s, "\x1b[") && reCUU.MatchString(s) {
		malformed = append(malformed, "second-cuu")
	}
	terminated := strings.HasSuffix(s, "\n")
	lines := strings.Split(s, "\n")
	if len(lines) > 0 && lines[len(lines)-1] == "" {
		lines = lines[:len(lines)-1]
	}
	e["nlines"] = len(lines)
	text := []string{}
	groups := []Event{}
	var cur Event
	pendingExt := map[string]int{} // ext rows seen before their bar row (reversed extender)
	maxw := 0
	seenBar := false
	ttok, tnl := 0, 0 // the text region as tokens: lines written through the container and line feeds
	for li, raw := range lines {
		ln := reAnsi.ReplaceAllString(raw, "")
		hasNL := terminated || li < len(lines)-1
		if ln == "" && !seenBar && hasNL {
			tnl++ // a line feed of its own (the second chunk of a line whose first chunk an earlier frame carried)
			continue
		}
		if pfx := reTokPfx.FindString(ln); pfx != "" {
			if seenBar {
				malformed = append(malformed, "text-below-bar")
			}
			toks := reTok.FindAllString(pfx, -1)
			text = append(text, toks...)
			ttok += len(toks)
			if len(pfx) == len(ln) {
				if hasNL {
					tnl++
				}
				continue
			}
			// a chunk without a line feed, and the frame's first row right behind it
			ln = ln[len(pfx):]
		}
		w := runewidth.StringWidth(ln)
		if w > maxw {
			maxw = w
		}
		if strings.Contains(ln, ":frag") {
			malformed = append(malformed, "unterminated-fragment-in-frame")
		}
		if m := reFill.FindStringSubmatchIndex(ln); m != nil {
			sm := reFill.FindStringSubmatch(ln)
			seenBar = true
			c, _ := strconv.ParseInt(sm[2], 10, 64)
			t, _ := strconv.ParseInt(sm[3], 10, 64)
			av, _ := strconv.Atoi(sm[5])
			pre := ln[:m[0]]
			app := ln[m[1]:]
			g := Event{"b": sm[1], "cur": c, "tot": t, "fl": sm[4], "avail": av, "w": w,
				"prew": runewidth.StringWidth(pre), "appw": runewidth.StringWidth(app), "ext": 0,
				"pre": decTokens(pre), "app": decTokens(app), "fillw": m[1] - m[0]}
			if n := pendingExt[sm[1]]; n > 0 {
				g["ext"] = n
				g["extrev"] = true
				delete(pendingExt, sm[1])
			}
			if reFill.MatchString(ln[m[1]:]) {
				malformed = append(malformed, "two-bars-in-row")
			}
			groups = append(groups, g)
			cur = g
			continue
		}
		if m := reExt.FindStringSubmatch(strings.TrimSpace(ln)); m != nil {
			seenBar = true
			if cur != nil && cur["b"] == m[1] && cur["extrev"] == nil {
				cur["ext"] = cur["ext"].(int) + 1
			} else {
				pendingExt[m[1]]++
			}
			continue
		}
		if reText.MatchString(ln) {
			if seenBar {
				malformed = append(malformed, "text-below-bar")
			}
			text = append(text, ln)
			continue
		}
		malformed = append(malformed, "junk:"+strconv.Quote(raw))
	}
	if seenBar && !terminated {
		malformed = append(malformed, "no-trailing-newline")
	}
	for b := range pendingExt {
		malformed = append(malformed, "orphan-ext:"+b)
	}
	for _, g := range groups {
		delete(g, "extrev")
	}
	e["text"] = text
	e["ttok"] = ttok
	e["tnl"] = tnl
	e["groups"] = groups
	e["ngroups"] = len(groups)
	e["maxw"] = maxw
	e["malformed"] = malformed
	return e
}

// decTokens lists the decorator fields found in a row section with the display
// column at which each one's text begins and ends (padding excluded).
func decTokens(s string) []Event {
	out := []Event{}
	for _, m := range reDecTok.FindAllStringSubmatchIndex(s, -1) {
		name := s[m[2]:m[3]] + s[m[4]:m[5]] + s[m[6]:m[7]]
		sfx := "" // which message, if any, stands in for the decorator: on-complete, on-abort, on-either
		if t := s[m[8]:m[9]]; strings.HasPrefix(t, "!") {
			sfx = t[1:]
		}
		out = append(out, Event{"d": name, "from": runewidth.StringWidth(s[:m[0]]), "to": runewidth.StringWidth(s[:m[1]]), "sfx": sfx})
	}
	return out
}
