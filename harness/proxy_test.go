package harness

import (
	"bufio"
	"encoding/json"
	"errors"
	"fmt"
	"io"
	"os"
	"strconv"
	"strings"
	"sync"
	"testing"
	"time"

	"github.com/vbauerster/mpb/v8"
	"github.com/vbauerster/mpb/v8/decor"
)

type ProxyCase struct {
	Cfg struct {
		Dir      string `json:"dir"`
		HasClose bool   `json:"hasClose"`
		HasFast  bool   `json:"hasFast"`
		Ewma     bool   `json:"ewma"`
		Total    int64  `json:"total"`
		Prov     int64  `json:"prov"`
		UseFast  bool   `json:"useFast"`
		Script   []struct {
			N   int    `json:"n"`
			Err string `json:"err"`
		} `json:"script"`
		Closes int `json:"closes"`
	} `json:"cfg"`
	Cur            int64   `json:"cur"`
	Done           bool    `json:"done"`
	Samples        []int64 `json:"samples"`
	ForwardedClose int     `json:"forwardedClose"`
}

var errBoom = errors.New("boom")

func scriptErr(s string) error {
	switch s {
	case "EOF":
		return io.EOF
	case "boom":
		return errBoom
	}
	return nil
}

// scripted underlying values; the byte content identifies call and position
type scripted struct {
	c      *ProxyCase
	i      int
	closed int
	seen   []byte // bytes the underlying writer received
}

func (s *scripted) next() (int, error) {
	r := s.c.Cfg.Script[s.i]
	s.i++
	return r.N, scriptErr(r.Err)
}
func (s *scripted) Read(p []byte) (int, error) {
	n, err := s.next()
	for k := 0; k < n; k++ {
		p[k] = byte('a' + s.i)
	}
	return n, err
}
func (s *scripted) Write(p []byte) (int, error) {
	n, err := s.next()
	s.seen = append(s.seen, p[:n]...)
	return n, err
}

type rPlain struct{ *scripted }
type rCloser struct{ *scripted }
type rFast struct{ *scripted }
type rFastCloser struct{ *scripted }

func (r rCloser) Close() error     { r.closed++; return nil }
func (r rFastCloser) Close() error { r.closed++; return nil }
func (r rFast) WriteTo(w io.Writer) (int64, error) {
	n, err := r.next()
	return int64(n), err
}
func (r rFastCloser) WriteTo(w io.Writer) (int64, error) {
	n, err := r.next()
	return int64(n), err
}

type wPlain struct{ *scripted }
type wCloser struct{ *scripted }
type wFast struct{ *scripted }
type wFastCloser struct{ *scripted }

func (r wCloser) Close() error     { r.closed++; return nil }
func (r wFastCloser) Close() error { r.closed++; return nil }
func (r wFast) ReadFrom(rd io.Reader) (int64, error) {
	n, err := r.next()
	return int64(n), err
}
func (r wFastCloser) ReadFrom(rd io.Reader) (int64, error) {
	n, err := r.next()
	return int64(n), err
}

type sampleRec struct {
	decor.WC
	mu      sync.Mutex
	samples []int64
	durs    []time.Duration
}

func (d *sampleRec) Decor(decor.Statistics) (string, int) { return "", 0 }
func (d *sampleRec) EwmaUpdate(n int64, dur time.Duration) {
	d.mu.Lock()
	d.samples = append(d.samples, n)
	d.durs = append(d.durs, dur)
	d.mu.Unlock()
}

func runProxyCase(c *ProxyCase, wrapDepth int) string {
	p := mpb.New(mpb.WithOutput(io.Discard))
	// two moving-average decorators, one on each side: every sample must reach both
	rec, rec2 := &sampleRec{}, &sampleRec{}
	rec.WC.Init()
	rec2.WC.Init()
	var opts []mpb.BarOption
	if c.Cfg.Ewma {
		var d decor.Decorator = rec
		for k := 0; k < wrapDepth; k++ {
			d = decor.OnComplete(d, "done")
		}
		opts = append(opts, mpb.AppendDecorators(d), mpb.PrependDecorators(rec2))
	}
	bar := p.AddBar(c.Cfg.Total, opts...)
	if c.Cfg.Prov > 0 {
		bar.SetTotal(c.Cfg.Prov, false) // an estimate of the size: completion stays off
	}
	defer func() { bar.Abort(false); p.Wait() }()
	s := &scripted{c: c}
	var gotN []int
	var gotErr []error
	fastOffered := false
	var closer io.Closer
	if c.Cfg.Dir == "r" {
		var under io.Reader
		switch {
		case c.Cfg.HasFast && c.Cfg.HasClose:
			under = rFastCloser{s}
		case c.Cfg.HasFast:
			under = rFast{s}
		case c.Cfg.HasClose:
			under = rCloser{s}
		default:
			under = rPlain{s}
		}
		pr := bar.ProxyReader(under)
		if pr == nil {
			return "ProxyReader returned nil for a live bar"
		}
		closer = pr
		wt, ok := pr.(io.WriterTo)
		fastOffered = ok
		if c.Cfg.UseFast {
			if !ok {
				return "fast path (WriteTo) not offered"
			}
			n, err := wt.WriteTo(io.Discard)
			gotN, gotErr = append(gotN, int(n)), append(gotErr, err)
		} else {
			buf := make([]byte, 8)
			for k := range c.Cfg.Script {
				// "for every chunking": a call that moves nothing is made with an empty buffer in half of the cases (the other
				// half of each script comes with the other value of Closes); it must reach the wrapped value all the same
				b := buf
				if c.Cfg.Script[k].N == 0 && (k+c.Cfg.Closes)%2 == 0 {
					b = buf[:0]
				}
				n, err := pr.Read(b)
				gotN, gotErr = append(gotN, n), append(gotErr, err)
				for k := 0; k < n; k++ {
					if buf[k] != byte('a'+s.i) {
						return "data changed on the way through the proxy"
					}
				}
			}
		}
	} else {
		var under io.Writer
		switch {
		case c.Cfg.HasFast && c.Cfg.HasClose:
			under = wFastCloser{s}
		case c.Cfg.HasFast:
			under = wFast{s}
		case c.Cfg.HasClose:
			under = wCloser{s}
		default:
			under = wPlain{s}
		}
		pw := bar.ProxyWriter(under)
		if pw == nil {
			return "ProxyWriter returned nil for a live bar"
		}
		closer = pw
		rf, ok := pw.(io.ReaderFrom)
		fastOffered = ok
		if c.Cfg.UseFast {
			if !ok {
				return "fast path (ReadFrom) not offered"
			}
			n, err := rf.ReadFrom(strings.NewReader("xxxxxxxx"))
			gotN, gotErr = append(gotN, int(n)), append(gotErr, err)
		} else {
			var sent []byte
			for k := range c.Cfg.Script {
				chunk := []byte(strings.Repeat(string(rune('a'+k)), 4))
				if c.Cfg.Script[k].N == 0 && (k+c.Cfg.Closes)%2 == 0 {
					chunk = chunk[:0] // an empty write is a call like any other
				}
				n, err := pw.Write(chunk)
				gotN, gotErr = append(gotN, n), append(gotErr, err)
				if n >= 0 && n <= len(chunk) {
					sent = append(sent, chunk[:n]...)
				}
			}
			if string(sent) != string(s.seen) {
				return fmt.Sprintf("underlying writer received %q, caller was told %q", s.seen, sent)
			}
		}
	}
	if fastOffered != c.Cfg.HasFast {
		return fmt.Sprintf("fast path offered=%v, wrapped value has it=%v", fastOffered, c.Cfg.HasFast)
	}
	for k, r := range c.Cfg.Script {
		if gotN[k] != r.N || gotErr[k] != scriptErr(r.Err) {
			return fmt.Sprintf("call %d returned (%d, %v), wrapped value returned (%d, %q)", k, gotN[k], gotErr[k], r.N, r.Err)
		}
	}
	for k := 0; k < c.Cfg.Closes; k++ {
		if err := closer.Close(); err != nil {
			return "Close returned " + err.Error()
		}
	}
	if s.closed != c.ForwardedClose {
		return fmt.Sprintf("Close forwarded %d times, expected %d", s.closed, c.ForwardedClose)
	}
	if cur := bar.Current(); cur != c.Cur {
		return fmt.Sprintf("bar current %d, specification %d", cur, c.Cur)
	}
	if c.Cfg.Ewma {
		bar.Current() // one more round trip through the bar's goroutine: the update goroutines have been started
		var got, got2 []int64
		var durs []time.Duration
		for try := 0; try < 200; try++ {
			rec.mu.Lock()
			got = append([]int64(nil), rec.samples...)
			durs = append([]time.Duration(nil), rec.durs...)
			rec.mu.Unlock()
			rec2.mu.Lock()
			got2 = append([]int64(nil), rec2.samples...)
			rec2.mu.Unlock()
			if len(got) == len(got2) {
				break
			}
			time.Sleep(50 * time.Microsecond) // the updates run in goroutines of their own
		}
		if fmt.Sprint(got) != fmt.Sprint(got2) {
			return fmt.Sprintf("the appended moving-average decorator received %v, the prepended one %v", got, got2)
		}
		want := c.Samples
		// once the bar has completed its goroutine may or may not still accept a sample
		if c.Done {
			if len(got) < len(want) || len(got) > len(c.Cfg.Script) {
				return fmt.Sprintf("samples %v, specification %v (+ optional after completion)", got, want)
			}
			got = got[:len(want)]
		}
		if fmt.Sprint(got) != fmt.Sprint(want) {
			return fmt.Sprintf("samples %v, specification %v", got, want)
		}
		for _, d := range durs {
			if d < 0 || d > 5*time.Second {
				return fmt.Sprintf("implausible sample duration %v", d)
			}
		}
	}
	return ""
}

func TestProxyCases(t *testing.T) {
	in := os.Getenv("VH_IN")
	if in == "" {
		t.Skip("VH_IN not set")
	}
	f, err := os.Open(in)
	if err != nil {
		t.Fatal(err)
	}
	defer f.Close()
	o, _ := os.Create(os.Getenv("VH_OUT"))
	defer o.Close()
	w := bufio.NewWriter(o)
	defer w.Flush()
	from, _ := strconv.Atoi(os.Getenv("VH_FROM"))
	step, _ := strconv.Atoi(os.Getenv("VH_STEP"))
	if step == 0 {
		step = 1
	}
	scn := bufio.NewScanner(f)
	scn.Buffer(make([]byte, 1<<20), 1<<24)
	n, idx := 0, -1
	for scn.Scan() {
		line := scn.Text()
		if !strings.HasPrefix(line, `<<"PROXY", "`) {
			continue
		}
		idx++
		if idx%step != from {
			continue
		}
		js := strings.ReplaceAll(strings.TrimSuffix(strings.TrimPrefix(line, `<<"PROXY", "`), `">>`), `\"`, `"`)
		var c ProxyCase
		if err := json.Unmarshal([]byte(js), &c); err != nil {
			t.Fatalf("case %d: %v", idx, err)
		}
		n++
		for depth := 0; depth < 3; depth += 2 {
			if msg := runProxyCase(&c, depth); msg != "" {
				b, _ := json.Marshal(map[string]interface{}{"row": idx, "cfg": c.Cfg, "wrap": depth, "msg": msg})
				w.Write(b)
				w.WriteByte('\n')
			}
			if !c.Cfg.Ewma {
				break
			}
		}
	}
	fmt.Fprintf(w, "{\"done\":%d}\n", n)
}
