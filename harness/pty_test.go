package harness

import (
	"bufio"
	"encoding/json"
	"fmt"
	"io"
	"os"
	"regexp"
	"strings"
	"sync"
	"testing"
	"time"

	"github.com/mattn/go-runewidth"
	"github.com/vbauerster/mpb/v8"
	"github.com/vbauerster/mpb/v8/decor"
	"golang.org/x/sys/unix"
)

// A PtyProg drives a container that writes to a real pseudo terminal of H x W cells, so that the
// library's own terminal path (size query, clipping to the height) is executed.
type PtyProg struct {
	ID    string `json:"id"`
	H     int    `json:"h"`
	W     int    `json:"w"`
	Pop   bool   `json:"pop"`
	Exact bool   `json:"exact"` // the persist marks are reliable (no popped bar is ever clipped)
	ReqW  int    `json:"reqw"`  // WithWidth (0: not given); may be wider than the terminal, which then limits the rows
	Bars  []struct {
		Ext   int  `json:"ext"`
		NoPop bool `json:"nopop"`
		Rm    bool `json:"rm"`
	} `json:"bars"`
	Steps []struct {
		Op string `json:"op"` // add | done | text | refresh
		B  int    `json:"b"`
	} `json:"steps"`
}

func openPty(rows, cols int) (*os.File, *os.File, error) {
	m, err := os.OpenFile("/dev/ptmx", os.O_RDWR|unix.O_NOCTTY, 0)
	if err != nil {
		return nil, nil, err
	}
	if err := unix.IoctlSetPointerInt(int(m.Fd()), unix.TIOCSPTLCK, 0); err != nil {
		return nil, nil, err
	}
	n, err := unix.IoctlGetInt(int(m.Fd()), unix.TIOCGPTN)
	if err != nil {
		return nil, nil, err
	}
	s, err := os.OpenFile(fmt.Sprintf("/dev/pts/%d", n), os.O_RDWR|unix.O_NOCTTY, 0)
	if err != nil {
		return nil, nil, err
	}
	if err := unix.IoctlSetWinsize(int(s.Fd()), unix.TIOCSWINSZ, &unix.Winsize{Row: uint16(rows), Col: uint16(cols)}); err != nil {
		return nil, nil, err
	}
	return m, s, nil
}

var reFrameStart = regexp.MustCompile(`\x1b\[(\d+)A\x1b\[J`)

func runPty(pg *PtyProg) ([]Event, error) {
	m, s, err := openPty(pg.H, pg.W)
	if err != nil {
		return nil, err
	}
	var mu sync.Mutex
	var data []byte
	rd := make(chan struct{})
	go func() {
		defer close(rd)
		buf := make([]byte, 4096)
		for {
			n, err := m.Read(buf)
			mu.Lock()
			data = append(data, buf[:n]...)
			mu.Unlock()
			if err != nil {
				return
			}
		}
	}()
	ch := make(chan interface{})
	opts := []mpb.ContainerOption{mpb.WithOutput(s), mpb.WithManualRefresh(ch)}
	if pg.ReqW > 0 {
		opts = append(opts, mpb.WithWidth(pg.ReqW))
	}
	if pg.Pop {
		opts = append(opts, mpb.PopCompletedMode())
	}
	p := mpb.New(opts...)
	bars := map[int]*mpb.Bar{}
	fills := map[int]int{}
	var fmu sync.Mutex
	nt := 0
	settle := func() { time.Sleep(3 * time.Millisecond) }
	for _, st := range pg.Steps {
		switch st.Op {
		case "add":
			i := st.B
			bc := pg.Bars[i]
			filler := mpb.BarFillerFunc(func(w io.Writer, st decor.Statistics) error {
				fmu.Lock()
				fills[i]++
				n := fills[i]
				fmu.Unlock()
				// like the library's own fillers, it fills the width it is given
				row := fmt.Sprintf("b%d.0#%d", i, n)
				if pad := st.AvailableWidth - len(row); pad > 0 {
					row += strings.Repeat("=", pad)
				}
				_, err := io.WriteString(w, row)
				return err
			})
			o := []mpb.BarOption{mpb.BarFillerTrim()}
			if bc.Ext > 0 {
				o = append(o, mpb.BarExtender(mpb.BarFillerFunc(func(w io.Writer, _ decor.Statistics) error {
					fmu.Lock()
					n := fills[i]
					fmu.Unlock()
					for k := 1; k <= bc.Ext; k++ {
						fmt.Fprintf(w, "b%d.%d#%d\n", i, k, n)
					}
					return nil
				}), false))
			}
			if bc.NoPop {
				o = append(o, mpb.BarNoPop())
			}
			if bc.Rm {
				o = append(o, mpb.BarRemoveOnComplete())
			}
			bars[i] = p.MustAdd(1, filler, o...)
		case "done":
			bars[st.B].IncrBy(1)
		case "text":
			nt++
			fmt.Fprintf(p, "t%d\n", nt)
		case "refresh":
			ch <- time.Now()
			settle()
		}
	}
	for _, b := range bars {
		b.Abort(false)
	}
	for i := 0; i < 4; i++ {
		ch <- time.Now()
		settle()
	}
	p.Wait()
	settle()
	s.Close()
	select {
	case <-rd:
	case <-time.After(200 * time.Millisecond):
	}
	m.Close()
	mu.Lock()
	raw := string(data)
	mu.Unlock()
	// split the stream into frames at every cursor-up + erase sequence
	var evs []Event
	idx := reFrameStart.FindAllStringSubmatchIndex(raw, -1)
	type chunk struct {
		cuu  int
		body string
	}
	var chunks []chunk
	pos, cuu := 0, 0
	for _, m := range idx {
		if m[0] > pos || len(chunks) == 0 && m[0] == 0 {
			if m[0] > pos {
				chunks = append(chunks, chunk{cuu, raw[pos:m[0]]})
			}
		}
		fmt.Sscanf(raw[m[2]:m[3]], "%d", &cuu)
		if cuu < 1 {
			cuu = 1 // terminals execute "cursor up 0" as "cursor up 1" (the parameter's default)
		}
		pos = m[1]
	}
	if pos < len(raw) {
		chunks = append(chunks, chunk{cuu, raw[pos:]})
	}
	// last appearance of every bar row label's bar
	type line struct {
		s   string
		bar string
	}
	var frames [][]line
	last := map[string]int{}
	for k, c := range chunks {
		var ls []line
		body := strings.ReplaceAll(c.body, "\r\n", "\n")
		for _, l := range strings.Split(strings.TrimSuffix(body, "\n"), "\n") {
			if l == "" && body == "" {
				continue
			}
			bar := ""
			if strings.HasPrefix(l, "b") {
				bar = strings.SplitN(l, ".", 2)[0]
				last[bar] = k
			}
			ls = append(ls, line{l, bar})
		}
		frames = append(frames, ls)
	}
	for k, ls := range frames {
		lines := []Event{}
		maxw, nrows := 0, 0
		for _, l := range ls {
			persist := l.bar == ""
			if l.bar != "" {
				nrows++
				var bi int
				fmt.Sscanf(l.bar, "b%d", &bi)
				if pg.Pop && !pg.Bars[bi].NoPop && last[l.bar] == k {
					persist = true
				}
			}
			if w := runewidth.StringWidth(l.s); w > maxw {
				maxw = w
			}
			base := ""
			if l.bar != "" {
				base = strings.SplitN(l.s, "#", 2)[0]
			}
			lines = append(lines, Event{"s": l.s, "base": base, "persist": persist})
		}
		evs = append(evs, Event{"tr": pg.ID, "h": pg.H, "w": pg.W, "k": k + 1, "cuu": chunks[k].cuu, "lines": lines, "maxw": maxw, "nrows": nrows, "exact": pg.Exact})
	}
	return evs, nil
}

func TestPty(t *testing.T) {
	in := os.Getenv("VH_IN")
	if in == "" {
		t.Skip("VH_IN not set")
	}
	f, err := os.Open(in)
	if err != nil {
		t.Fatal(err)
	}
	defer f.Close()
	o, _ := os.Create(os.Getenv("VH_OUT"))
	defer o.Close()
	w := bufio.NewWriter(o)
	defer w.Flush()
	scn := bufio.NewScanner(f)
	scn.Buffer(make([]byte, 1<<20), 1<<24)
	for scn.Scan() {
		var pg PtyProg
		if err := json.Unmarshal(scn.Bytes(), &pg); err != nil {
			t.Fatal(err)
		}
		evs, err := runPty(&pg)
		if err != nil {
			fmt.Fprintf(w, "{\"error\":%q}\n", err.Error())
			return
		}
		for _, e := range evs {
			b, _ := json.Marshal(e)
			w.Write(b)
			w.WriteByte('\n')
		}
	}
	fmt.Fprintf(w, "{\"done\":true}\n")
}
