package harness

import (
	"bufio"
	"encoding/json"
	"fmt"
	"os"
	"strconv"
	"strings"
	"testing"
	"time"

	"github.com/mattn/go-runewidth"
	"github.com/vbauerster/mpb/v8"
	"github.com/vbauerster/mpb/v8/decor"
)

type RowP struct {
	P struct {
		Tw       int   `json:"tw"`
		Left     []int `json:"left"`
		Right    []int `json:"right"`
		Trim     bool  `json:"trim"`
		WideText bool  `json:"wideText"`
		Req      int   `json:"req"`
	} `json:"p"`
	Avail   int `json:"avail"`
	Written int `json:"written"`
	Cut     int `json:"cut"`
}

type chanWriter chan string

func (c chanWriter) Write(p []byte) (int, error) { c <- string(p); return len(p), nil }

func textOfWidth(w int, wide bool) string {
	if !wide {
		return strings.Repeat("d", w)
	}
	s := strings.Repeat("世", w/2)
	if w%2 == 1 {
		s += "d"
	}
	return s
}

func rowWidth(r *RowP) (int, string, bool) {
	out := make(chanWriter, 4)
	ch := make(chan interface{})
	p := mpb.New(mpb.WithOutput(out), mpb.WithWidth(r.P.Tw), mpb.WithManualRefresh(ch))
	var l, rr []decor.Decorator
	for _, w := range r.P.Left {
		l = append(l, decor.Name(textOfWidth(w, r.P.WideText)))
	}
	for _, w := range r.P.Right {
		rr = append(rr, decor.Name(textOfWidth(w, r.P.WideText)))
	}
	opts := []mpb.BarOption{mpb.PrependDecorators(l...), mpb.AppendDecorators(rr...)}
	if r.P.Trim {
		opts = append(opts, mpb.BarFillerTrim())
	}
	if r.P.Req != 0 {
		opts = append(opts, mpb.BarWidth(r.P.Req))
	}
	bar := p.AddBar(10, opts...)
	bar.IncrBy(3)
	ch <- time.Now()
	var frame string
	ok := true
	select {
	case frame = <-out:
	case <-time.After(3 * time.Second):
		ok = false
	}
	bar.Abort(true)
	p.Wait()
	line := strings.SplitN(frame, "\n", 2)[0]
	return runewidth.StringWidth(line), line, ok
}

func TestRowLayout(t *testing.T) {
	in := os.Getenv("VH_IN")
	if in == "" {
		t.Skip("VH_IN not set")
	}
	f, err := os.Open(in)
	if err != nil {
		t.Fatal(err)
	}
	defer f.Close()
	o, _ := os.Create(os.Getenv("VH_OUT"))
	defer o.Close()
	w := bufio.NewWriter(o)
	defer w.Flush()
	from, _ := strconv.Atoi(os.Getenv("VH_FROM"))
	step, _ := strconv.Atoi(os.Getenv("VH_STEP"))
	if step == 0 {
		step = 1
	}
	scn := bufio.NewScanner(f)
	scn.Buffer(make([]byte, 1<<20), 1<<24)
	n, idx := 0, -1
	for scn.Scan() {
		line := scn.Text()
		if !strings.HasPrefix(line, `<<"ROWP", "`) {
			continue
		}
		idx++
		if idx%step != from {
			continue
		}
		js := strings.ReplaceAll(strings.TrimSuffix(strings.TrimPrefix(line, `<<"ROWP", "`), `">>`), `\"`, `"`)
		var r RowP
		if err := json.Unmarshal([]byte(js), &r); err != nil {
			t.Fatalf("row %d: %v", idx, err)
		}
		if r.P.Tw == 0 {
			continue // WithWidth(0) means "default width 80": not a width of 0
		}
		n++
		got, text, ok := rowWidth(&r)
		msg := ""
		// the specification's row: decorators and spacing as laid out, plus the default
		// bracketed filler, which takes all that is left when at least its brackets fit
		avail, written := r.Avail, r.Written
		if !(r.P.Trim || avail < 2) {
			avail -= 2
			written += 2
		}
		want := written
		fillw := r.P.Req // what the filler is given: the requested width when it is positive and fits
		if fillw == 0 {
			fillw = r.P.Tw
		}
		if fillw < 1 || fillw > avail {
			fillw = avail
		}
		if fillw >= 2 {
			want += fillw
		}
		switch {
		case !ok:
			msg = "no frame"
		case got > r.P.Tw:
			msg = fmt.Sprintf("row is %d columns wide on a %d column terminal: %q", got, r.P.Tw, text)
		case r.Cut == 0 && got != want:
			msg = fmt.Sprintf("row is %d columns wide, the specification says %d: %q", got, want, text)
		}
		if msg != "" {
			b, _ := json.Marshal(map[string]interface{}{"row": idx, "p": r.P, "msg": msg})
			w.Write(b)
			w.WriteByte('\n')
		}
	}
	fmt.Fprintf(w, "{\"done\":%d}\n", n)
}
