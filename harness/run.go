package harness

import (
	"context"
	"encoding/json"
	"errors"
	"fmt"
	"io"
	"math"
	"math/rand"
	"os"
	"reflect"
	"regexp"
	"runtime"
	"sort"
	"strings"
	"sync"
	"sync/atomic"
	"testing"
	"testing/synctest"
	"time"

	"github.com/mattn/go-runewidth"
	"github.com/vbauerster/mpb/v8"
	"github.com/vbauerster/mpb/v8/decor"
)

const refreshRate = 100 * time.Millisecond

type Event map[string]interface{}

type gate struct {
	label  string
	rel    chan struct{}
	seq    int
	client int // >=0 for harness client gates
	opIdx  int
}

type barInfo struct {
	name      string
	bar       *mpb.Bar
	failed    bool // Add returned an error
	added     bool // Add returned
	fills     int
	exts      int
	op        *Op
	created   bool
	whenFired bool
	lateFills int          // Fill calls since the done channel was closed (for a fault "at the k-th final frame")
	termFills atomic.Int32 // Fill calls that saw the bar completed or aborted
}

type run struct {
	sc     *Scenario
	mu     sync.Mutex
	cond   *sync.Cond
	events []Event
	seq    int

	parked   []*gate
	gseq     int
	draining bool
	free     bool // free-running mode: no gates, real time

	barPtr      map[uintptr]string
	bars        map[string]*barInfo
	chanName    map[chan int]string
	lastCreated string

	p             *mpb.Progress
	cancel        context.CancelFunc
	wcProto       map[string]*decor.WC
	manualClosed  bool
	noMoreRefresh chan struct{}
	refreshers    sync.WaitGroup
	uwg           *sync.WaitGroup
	uwgDone       map[int]bool
	closing       bool // some Wait / Shutdown has passed its barrier and is cancelling the container
	lsDone        bool // the refresh listener has passed its last gate and closes the done channel
	manual        chan interface{}
	delay         chan struct{}
	notif         chan interface{}
	stop          chan struct{}
	clDone        []bool
	clPC          []int
	clInCall      []bool
	goidCl        map[string]int
	outW          *outRec
	dbg           *dbgRec
	frames        int
	cycles        int // completed render cycles (a cycle over an empty heap writes nothing)
	addsLeft      int
	rng           *rand.Rand
}

// sink, when set by the worker, receives every event as soon as it is recorded, so that
// the events of a scenario that crashes the process are not lost.
var sink func(Event)

// lastEvent (number of events recorded so far) and currentRun serve the worker's watchdog: a library goroutine
// that spins keeps the bubble from ever coming to rest, so the scheduler itself cannot notice it.
var (
	lastEvent  atomic.Int64
	currentRun atomic.Pointer[run]
)

// fmtSendBlocked: some goroutine is blocked in decor.WC.Format handing in its width (a channel send).
func fmtSendBlocked(gl []string) bool {
	for _, g := range gl {
		if i := strings.Index(g, "]: "); i >= 0 && strings.HasPrefix(g[i+3:], "/decor.WC.Format") && strings.HasPrefix(g, "[chan send") {
			return true
		}
	}
	return false
}

// spinning is called by the watchdog, from outside the bubble, when nothing has been recorded for a long real time.
func (r *run) spinning() {
	gl := libGoroutines()
	r.rec(Event{"ev": "hang", "kind": "spinning", "pending": r.pendingCalls(), "parked": labels(r.snapshot()), "goroutines": gl,
		"infmt": fmtSendBlocked(gl),
		"wpend": strings.Contains(strings.Join(r.pendingCalls(), " "), ":write:")})
	r.rec(Event{"ev": "end"})
}

func (r *run) rec(e Event) {
	lastEvent.Add(1) // (a counter, not a time: inside the bubble the clock is a fake one)
	r.mu.Lock()
	r.seq++
	e["seq"] = r.seq
	e["tr"] = r.sc.ID
	if sink != nil {
		sink(e)
	} else {
		r.events = append(r.events, e)
	}
	r.mu.Unlock()
}

func goid() string {
	var buf [64]byte
	n := runtime.Stack(buf[:], false)
	f := strings.Fields(string(buf[:n]))
	if len(f) >= 2 {
		return f[1]
	}
	return "?"
}

func ptrOf(x interface{}) uintptr {
	v := reflect.ValueOf(x)
	switch v.Kind() {
	case reflect.Ptr, reflect.Chan, reflect.UnsafePointer:
		return v.Pointer()
	}
	return 0
}

// barOf maps a *mpb.Bar seen in a hook to the scenario's name for it.
func (r *run) barOf(x interface{}, creating bool) string {
	p := ptrOf(x)
	r.mu.Lock()
	defer r.mu.Unlock()
	for i := 0; ; i++ {
		if n, ok := r.barPtr[p]; ok {
			return n
		}
		if creating && r.lastCreated != "" {
			// first push happens in the same closure that created the bar
			n := r.lastCreated
			r.barPtr[p] = n
			return n
		}
		if i > 2000 {
			return fmt.Sprintf("?%x", p)
		}
		// the client that received the bar from Add is about to register it
		r.mu.Unlock()
		runtime.Gosched()
		time.Sleep(0)
		r.mu.Lock()
	}
}

var cmdNames = []string{"sync", "push", "iter", "fix", "state", "end"}

func (r *run) label(point string, args []interface{}) string {
	switch point {
	case "hm:req":
		cmd := cmdNames[args[0].(int)]
		if cmd == "push" {
			v := reflect.ValueOf(args[2])
			b := r.barOfPtr(v.Field(0).Pointer())
			return "hm:req:push:" + b
		}
		return "hm:req:" + cmd
	case "us:listen":
		return "us:listen:" + args[0].(string)
	case "ct:hm":
		return "ct:hm:" + cmdNames[args[0].(int)]
	case "ct:push":
		return "ct:push:" + r.barOf(args[0], true)
	case "dp:send", "hm:iter", "hm:pop", "rg:start", "bar:exit", "bar:cancel", "er:start", "er:pump", "ct:cancelbar":
		return point + ":" + r.barOf(args[0], false)
	case "fmt:send":
		return "fmt:send:" + r.chName(args[0])
	case "dist:start", "dist:mid":
		return point + ":" + r.chName(args[0])
	case "pw:cancel":
		r.mu.Lock()
		c, ok := r.goidCl[goid()]
		r.mu.Unlock()
		if ok {
			return fmt.Sprintf("pw:cancel:%d", c)
		}
		return "pw:cancel:?"
	}
	return point
}

func (r *run) barOfPtr(p uintptr) string {
	r.mu.Lock()
	defer r.mu.Unlock()
	if n, ok := r.barPtr[p]; ok {
		return n
	}
	return fmt.Sprintf("?%x", p)
}

func (r *run) chName(x interface{}) string {
	ch, _ := x.(chan int)
	r.mu.Lock()
	defer r.mu.Unlock()
	if n, ok := r.chanName[ch]; ok {
		return n
	}
	return "?ch"
}

func (r *run) hook(point string, args ...interface{}) {
	r.mu.Lock()
	dr := r.draining
	r.mu.Unlock()
	if dr {
		return
	}
	label := r.label(point, args)
	if point == "ct:flush" {
		r.rec(Event{"ev": "flush", "rows": args[0].(int), "pop": args[1].(int)})
		r.mu.Lock()
		r.cycles++
		r.mu.Unlock()
	}
	if point == "dp:send" {
		// the heap manager's queue was full: this push travels in its own goroutine
		r.rec(Event{"ev": "detached", "b": strings.TrimPrefix(label, "dp:send:")})
	}
	if point == "hm:req" {
		r.rec(Event{"ev": "hmreq", "g": label, "hlen": args[1].(int)})
	}
	g := &gate{label: label, rel: make(chan struct{}), client: -1}
	r.mu.Lock()
	if r.draining {
		r.mu.Unlock()
		return
	}
	r.gseq++
	g.seq = r.gseq
	r.parked = append(r.parked, g)
	r.mu.Unlock()
	<-g.rel
	if strings.HasPrefix(label, "pw:cancel") {
		r.mu.Lock()
		r.closing = true
		r.mu.Unlock()
		// Wait or Shutdown is about to cancel the container: calls still in flight may
		// from now on take their "container is done" branch
		r.rec(Event{"ev": "closing"})
	}
	if label == "ls:done" {
		// the listener is about to close the container's done channel: what is drawn from now on are the final frames
		r.mu.Lock()
		r.lsDone = true
		r.mu.Unlock()
	}
	if label == "ls:tick" {
		// the refresh listener is about to hand a render request to the container
		r.rec(Event{"ev": "tickfwd"})
	}
	if label == "ct:hm:sync" {
		// a render cycle begins: every Add that returned before this point is in the
		// heap manager's queue ahead of the cycle's sync request
		r.rec(Event{"ev": "cycle"})
	}
}

// ---------------------------------------------------------------- output recording

type outRec struct {
	r      *run
	writes int
}

var errOut = errors.New("verif: injected output error")
var errFill = errors.New("verif: injected filler error")
var errExt = errors.New("verif: injected extender error")

func (o *outRec) Write(p []byte) (int, error) {
	o.writes++
	if k := o.r.sc.Cfg.OutFault; k > 0 && o.writes == k {
		o.r.rec(Event{"ev": "fault", "kind": "out", "at": k})
		return 0, errOut
	}
	e := parseFrame(p)
	e["ev"] = "out"
	o.r.mu.Lock()
	o.r.frames++
	e["k"] = o.r.frames
	o.r.mu.Unlock()
	o.r.rec(e)
	return len(p), nil
}

type dbgRec struct{ r *run }

func (d *dbgRec) Write(p []byte) (int, error) {
	d.r.rec(Event{"ev": "debug", "s": string(p)})
	return len(p), nil
}

// ---------------------------------------------------------------- decorators and fillers

type probeDecor struct {
	decor.WC
	r        *run
	name     string // b1p0
	bar      string
	side     string
	idx      int
	spec     DecorSpec
	calls    int
	col      int          // ordinal among the synchronised decorators of its side, -1 if not synchronised
	lastN    int64        // written by EwmaUpdate, read by Decor (no lock: the library serialises the two)
	updating atomic.Int32 // EwmaUpdate calls in progress
}

var probeGlyphs = []string{"x", "世", "x\u0301"}

func (d *probeDecor) Decor(s decor.Statistics) (string, int) {
	if d.updating.Load() > 0 {
		d.r.rec(Event{"ev": "overlap", "d": d.name, "b": d.bar, "what": "Decor while EwmaUpdate is running"})
	}
	_ = d.lastN
	if d.r.free && d.calls%3 == 1 {
		// a decorator that takes its time keeps the bar's goroutine busy: calls from several clients queue up behind the
		// frame and are then applied back to back, in the order they arrived
		time.Sleep(300 * time.Microsecond)
	}
	need := 0
	if n := len(d.spec.Needs); n > 0 {
		need = d.spec.Needs[d.calls%n]
	}
	d.calls++
	if need < 0 {
		return d.Format("") // a decorator with nothing to show in this frame still takes part in its column's exchange
	}
	// the text's display width is not always its number of runes (or bytes): the columns are display columns
	return d.Format("(" + d.name + strings.Repeat(probeGlyphs[d.spec.Glyph%len(probeGlyphs)], need) + ")")
}

func (d *probeDecor) Format(s string) (string, int) {
	// the width this decorator needs, as the documentation of WC states it
	need := runewidth.StringWidth(s)
	if d.spec.W > need {
		need = d.spec.W
	} else if d.spec.Space {
		need++
	}
	str, w := d.WC.Format(s)
	d.r.rec(Event{"ev": "fmtret", "d": d.name, "b": d.bar, "side": d.side, "idx": d.idx, "col": d.col, "need": need, "got": w,
		"sync": d.spec.Sync, "strw": runewidth.StringWidth(str)})
	return str, w
}

func (r *run) isDoneClosed() bool {
	r.mu.Lock()
	defer r.mu.Unlock()
	return r.lsDone
}

// libPrio: the scenario's priorities are small numbers (the monitor's integers are 32 bit); +-2^30 stand for the ends
// of the int range ("pin this bar to the bottom": BarPriority(math.MaxInt)), which is order-isomorphic.
func libPrio(p int) int {
	switch {
	case p >= 1<<30:
		return math.MaxInt
	case p <= -(1 << 30):
		return math.MinInt
	}
	return p
}

// userGate parks user code (a callback the library runs in a goroutine of its own) like a library gate, so that
// the scheduler decides when it returns; in free-running mode it does nothing.
func (r *run) userGate(point, name string) {
	if r.free {
		return
	}
	r.hook(point, name)
}

// user code takes its time: in free-running mode a listener is notified "slowly"
func (d *probeDecor) slow() {
	if d.r.free {
		time.Sleep(300 * time.Microsecond)
	}
}

type listenDecor struct{ *probeDecor }

// a listener may ask its own bar for its final values
func (d *probeDecor) askBar() Event {
	e := Event{"ev": "onshutdown", "d": d.name, "b": d.bar, "asked": false}
	d.r.mu.Lock()
	bi := d.r.bars[d.bar]
	d.r.mu.Unlock()
	if bi != nil && bi.bar != nil && d.idx%2 == 0 {
		e["asked"] = true
		e["cur"] = bi.bar.Current()
		e["running"] = bi.bar.IsRunning()
		e["terminal"] = bi.bar.Completed() || bi.bar.Aborted()
	}
	return e
}

func (d listenDecor) OnShutdown() {
	d.slow()
	d.r.userGate("us:listen", d.name)
	d.r.rec(d.askBar())
}

type ewmaDecor struct{ *probeDecor }

// noteUpdate: an EWMA decorator keeps what it was told in plain fields, like the library's own decorators do; the
// library runs EwmaUpdate in a goroutine of its own and joins it before the bar's goroutine goes on, so Decor and
// EwmaUpdate never overlap and need no lock.
func (d *probeDecor) noteUpdate(n int64) {
	d.updating.Add(1)
	d.slow()
	d.lastN = n
	d.updating.Add(-1)
}

func (d ewmaDecor) EwmaUpdate(n int64, dur time.Duration) {
	d.noteUpdate(n)
	d.r.rec(Event{"ev": "ewma", "d": d.name, "b": d.bar, "n": n, "dur": int64(dur)})
}

type listenEwmaDecor struct{ *probeDecor }

func (d listenEwmaDecor) OnShutdown() {
	d.slow()
	d.r.userGate("us:listen", d.name)
	d.r.rec(d.askBar())
}
func (d listenEwmaDecor) EwmaUpdate(n int64, dur time.Duration) {
	d.noteUpdate(n)
	d.r.rec(Event{"ev": "ewma", "d": d.name, "b": d.bar, "n": n, "dur": int64(dur)})
}

// avgDecor carries the library's own average decorators: AverageAdjust writes their start time, Decor reads it.
// Both run in the bar's goroutine (AverageAdjust through Bar.DecoratorAverageAdjust).
type avgDecor struct {
	*probeDecor
	eta, speed decor.Decorator
}

func (d avgDecor) Decor(s decor.Statistics) (string, int) {
	d.eta.Decor(s)
	d.speed.Decor(s)
	return d.probeDecor.Decor(s)
}

func (d avgDecor) AverageAdjust(t time.Time) {
	d.eta.(decor.AverageDecorator).AverageAdjust(t)
	d.speed.(decor.AverageDecorator).AverageAdjust(t)
}

type customWrap struct{ decor.Decorator }

func (w customWrap) Unwrap() decor.Decorator { return w.Decorator }

func (r *run) mkDecor(bar, side string, idx, col int, spec DecorSpec) decor.Decorator {
	p := &probeDecor{r: r, name: fmt.Sprintf("%s%s%d", bar, side, idx), bar: bar, side: side, idx: idx, spec: spec, col: col}
	// the documented idiom for custom decorators: one WC variable per kind of column, `proto.Init()` for each
	// decorator built from it (every Init call gives the decorator a width channel of its own)
	key := fmt.Sprintf("%d/%v/%v/%v", spec.W, spec.Sync, spec.Space, spec.Right)
	r.mu.Lock()
	if r.wcProto == nil {
		r.wcProto = map[string]*decor.WC{}
	}
	proto := r.wcProto[key]
	if proto == nil {
		proto = &decor.WC{W: spec.W}
		if spec.Sync {
			proto.C |= decor.DSyncWidth
		}
		if spec.Space {
			proto.C |= decor.DextraSpace
		}
		if spec.Right {
			proto.C |= decor.DindentRight
		}
		r.wcProto[key] = proto
	}
	p.WC = proto.Init()
	r.mu.Unlock()
	if ch, ok := p.Sync(); ok {
		r.mu.Lock()
		r.chanName[ch] = p.name
		r.mu.Unlock()
	}
	var d decor.Decorator = p
	switch {
	case spec.Avg:
		d = avgDecor{p, decor.AverageETA(decor.ET_STYLE_GO), decor.AverageSpeed(decor.SizeB1024(0), "% .1f")}
	case spec.Listen && spec.Ewma:
		d = listenEwmaDecor{p}
	case spec.Listen:
		d = listenDecor{p}
	case spec.Ewma:
		d = ewmaDecor{p}
	}
	for _, w := range spec.Wrap {
		switch w {
		case "oncomplete":
			d = decor.OnComplete(d, "("+p.name+"!C)")
		case "onabort":
			d = decor.OnAbort(d, "("+p.name+"!A)")
		case "oncomplete0":
			d = decor.OnComplete(d, "") // the decorator is cleared on completion
		case "onabort0":
			d = decor.OnAbort(d, "")
		case "either":
			d = decor.OnCompleteOrOnAbort(d, "("+p.name+"!E)")
		case "oncompletemeta":
			d = decor.OnCompleteMeta(d, func(s string) string { return "\x1b[33m" + s + "\x1b[0m" })
		case "onabortmeta":
			d = decor.OnAbortMeta(d, func(s string) string { return "\x1b[31m" + s + "\x1b[0m" })
		case "eithermeta":
			d = decor.OnCompleteMetaOrOnAbortMeta(d, func(s string) string { return "\x1b[35m" + s + "\x1b[0m" })
		case "meta":
			d = decor.Meta(d, func(s string) string { return "\x1b[32m" + s + "\x1b[0m" })
		case "custom":
			d = customWrap{d}
		}
	}
	return d
}

func flagsOf(s decor.Statistics) string {
	f := ""
	if s.Completed {
		f += "C"
	}
	if s.Aborted {
		f += "A"
	}
	if f == "" {
		f = "-"
	}
	return f
}

func (r *run) mkFiller(bi *barInfo) mpb.BarFiller {
	return mpb.BarFillerFunc(func(w io.Writer, s decor.Statistics) error {
		bi.fills++
		if s.Completed || s.Aborted {
			bi.termFills.Add(1)
		}
		if f := bi.op.Fault; f != nil && f.At < 0 && r.isDoneClosed() {
			bi.lateFills++ // Fill calls since the done channel was closed
		}
		if f := bi.op.Fault; f != nil && f.Kind == "fill" && ((f.At > 0 && bi.fills == f.At) || (f.At < 0 && bi.lateFills == -f.At) || (f.When == "C" && s.Completed && !bi.whenFired)) {
			bi.whenFired = true
			r.rec(Event{"ev": "fault", "kind": "fill", "b": bi.name, "at": f.At})
			return errFill
		}
		r.rec(Event{"ev": "fill", "b": bi.name, "cur": s.Current, "tot": s.Total, "fl": flagsOf(s), "avail": s.AvailableWidth, "refill": s.Refill})
		tok := fmt.Sprintf("<%s|%d|%d|%s|%d>", bi.name, s.Current, s.Total, flagsOf(s), s.AvailableWidth)
		if len(tok) > s.AvailableWidth {
			// a filler may not exceed the width it is given
			tok = tok[:max(s.AvailableWidth, 0)]
		}
		_, err := io.WriteString(w, tok)
		return err
	})
}

func (r *run) mkExt(bi *barInfo) mpb.BarFiller {
	return mpb.BarFillerFunc(func(w io.Writer, s decor.Statistics) error {
		bi.exts++
		if f := bi.op.Fault; f != nil && f.Kind == "ext" && bi.exts == f.At {
			r.rec(Event{"ev": "fault", "kind": "ext", "b": bi.name, "at": f.At})
			return errExt
		}
		for i := 0; i < bi.op.Ext; i++ {
			fmt.Fprintf(w, "|%s:e%d|\n", bi.name, i)
		}
		if bi.op.ExtFrag {
			// a trailing fragment without a line feed is not a row (the library drops it)
			fmt.Fprintf(w, "|%s:frag", bi.name)
		}
		return nil
	})
}

// ---------------------------------------------------------------- client programs

func errName(err error) string {
	switch {
	case err == nil:
		return ""
	case errors.Is(err, mpb.ErrDone):
		return "ErrDone"
	}
	return err.Error()
}

func (r *run) eligible(g *gate) bool {
	if g.client < 0 {
		return true
	}
	op := &r.sc.Clients[g.client][g.opIdx]
	r.mu.Lock()
	defer r.mu.Unlock()
	if w := op.When; w != nil {
		if bi := r.bars[w.B]; bi == nil || int(bi.termFills.Load()) < w.TF {
			return false
		}
	}
	switch op.Op {
	case "add":
		if op.After != "" {
			bi := r.bars[op.After]
			return bi != nil && bi.added
		}
		return true
	case "wait":
		return r.addsLeft == 0
	case "write", "shutdown", "cancel", "refresh", "closerefresh", "delayend", "nop", "pause":
		return true
	}
	if op.B != "" {
		bi := r.bars[op.B]
		return bi != nil && bi.added
	}
	return true
}

func (r *run) afterWait(c, i int) bool {
	for _, op := range r.sc.Clients[c][:i] {
		if op.Op == "wait" {
			return true
		}
	}
	return false
}

func (r *run) client(c int) {
	r.mu.Lock()
	r.goidCl[goid()] = c
	r.mu.Unlock()
	ops := r.sc.Clients[c]
	for i := range ops {
		g := &gate{label: fmt.Sprintf("cl:%d", c), rel: make(chan struct{}), client: c, opIdx: i}
		r.mu.Lock()
		dr := r.draining
		if !dr {
			r.gseq++
			g.seq = r.gseq
			r.parked = append(r.parked, g)
		}
		r.mu.Unlock()
		if !dr {
			<-g.rel
		}
		if ops[i].Op == "wait" {
			r.workerDone(c) // a worker that waits for the container itself has finished its work
		}
		r.exec(c, i, &ops[i])
		r.mu.Lock()
		r.clPC[c] = i + 1
		r.mu.Unlock()
	}
	r.workerDone(c)
	r.mu.Lock()
	r.clDone[c] = true
	r.mu.Unlock()
}

// workerDone: with a user wait group (WithWaitGroup) every client but the first is a worker and calls Done once.
func (r *run) workerDone(c int) {
	if r.uwg == nil || c == 0 {
		return
	}
	r.mu.Lock()
	first := !r.uwgDone[c]
	r.uwgDone[c] = true
	r.mu.Unlock()
	if first {
		r.uwg.Done()
	}
}

func (r *run) exec(c, i int, op *Op) {
	inv := Event{"ev": "inv", "c": c, "i": i, "op": op.Op, "b": op.B, "n": op.N, "flag": op.Flag}
	ret := Event{"ev": "ret", "c": c, "i": i, "op": op.Op, "b": op.B, "n": op.N, "flag": op.Flag, "err": ""}
	var bar *mpb.Bar
	if op.Op != "add" && op.B != "" {
		r.mu.Lock()
		bi := r.bars[op.B]
		r.mu.Unlock()
		if bi == nil || bi.failed || bi.bar == nil {
			r.rec(Event{"ev": "skip", "c": c, "i": i, "op": op.Op, "b": op.B})
			return
		}
		bar = bi.bar
	}
	switch op.Op {
	case "add":
		bi := &barInfo{name: op.B, op: op}
		inv["total"] = op.Total
		inv["rm"] = op.Rm
		inv["nopop"] = op.NoPop
		inv["after"] = op.After
		inv["ext"] = op.Ext
		inv["extfrag"] = op.ExtFrag
		inv["npre"] = len(op.Pre)
		inv["napp"] = len(op.App)
		inv["trim"] = op.Trim
		prio := 0
		if op.Prio != nil {
			prio = *op.Prio
		}
		inv["hasid"] = op.ID != nil
		inv["id"] = 0
		if op.ID != nil {
			inv["id"] = *op.ID
		}
		inv["hasprio"] = op.Prio != nil
		inv["prio"] = prio
		var syncs [2]int
		var listens []string
		ewmas := []string{}
		wraps := []Event{}
		var opts []mpb.BarOption
		var groups [2][]decor.Decorator
		for si, specs := range [2][]DecorSpec{op.Pre, op.App} {
			side := "p"
			if si == 1 {
				side = "a"
			}
			for k, sp := range specs {
				col := -1
				if sp.Sync {
					col = syncs[si]
				}
				groups[si] = append(groups[si], r.mkDecor(op.B, side, k, col, sp))
				if sp.Sync {
					syncs[si]++
				}
				if len(sp.Wrap) > 0 {
					wraps = append(wraps, Event{"d": fmt.Sprintf("%s%s%d", op.B, side, k), "w": sp.Wrap})
				}
				if sp.Listen && !sp.Avg {
					listens = append(listens, fmt.Sprintf("%s%s%d", op.B, side, k))
				}
				if sp.Ewma && !sp.Avg {
					ewmas = append(ewmas, fmt.Sprintf("%s%s%d", op.B, side, k))
				}
			}
		}
		inv["psync"] = syncs[0]
		inv["async"] = syncs[1]
		if listens == nil {
			listens = []string{}
		}
		inv["listens"] = listens
		inv["ewmas"] = ewmas
		inv["wraps"] = wraps
		opts = append(opts, mpb.PrependDecorators(groups[0]...), mpb.AppendDecorators(groups[1]...))
		if op.Rm {
			opts = append(opts, mpb.BarRemoveOnComplete())
		}
		if op.NoPop {
			opts = append(opts, mpb.BarNoPop())
		}
		if op.Trim {
			opts = append(opts, mpb.BarFillerTrim())
		}
		if op.Prio != nil {
			opts = append(opts, mpb.BarPriority(libPrio(*op.Prio)))
		}
		if op.ID != nil {
			opts = append(opts, mpb.BarID(*op.ID))
		}
		if op.Ext > 0 || (op.Fault != nil && op.Fault.Kind == "ext") {
			opts = append(opts, mpb.BarExtender(r.mkExt(bi), op.ExtRv))
		}
		if op.After != "" {
			r.mu.Lock()
			pb := r.bars[op.After]
			r.mu.Unlock()
			if pb != nil && pb.bar != nil {
				opts = append(opts, mpb.BarQueueAfter(pb.bar))
			} else {
				inv["after"] = ""
			}
		}
		// runs in the container goroutine while the bar is created: creation order is exact
		opts = append(opts, mpb.BarFillerMiddleware(func(f mpb.BarFiller) mpb.BarFiller {
			r.mu.Lock()
			r.lastCreated = op.B
			bi.created = true
			r.mu.Unlock()
			r.rec(Event{"ev": "created", "b": op.B})
			return f
		}))
		r.mu.Lock()
		r.bars[op.B] = bi
		r.mu.Unlock()
		r.rec(inv)
		b, err := r.p.Add(op.Total, r.mkFiller(bi), opts...)
		r.mu.Lock()
		if err != nil {
			bi.failed = true
		} else {
			bi.bar = b
			r.barPtr[ptrOf(b)] = op.B
			if r.lastCreated == op.B {
				r.lastCreated = ""
			}
		}
		bi.added = true
		if !r.afterWait(c, i) {
			r.addsLeft--
		}
		r.mu.Unlock()
		ret["err"] = errName(err)
		r.rec(ret)
		return
	case "incr":
		r.rec(inv)
		bar.IncrInt64(op.N)
	case "ewma":
		r.rec(inv)
		bar.EwmaIncrInt64(op.N, time.Duration(op.Total))
	case "setcur":
		r.rec(inv)
		bar.SetCurrent(op.N)
	case "settotal":
		r.rec(inv)
		bar.SetTotal(op.N, op.Flag)
	case "trigger":
		r.rec(inv)
		bar.EnableTriggerComplete()
	case "refill":
		r.rec(inv)
		bar.SetRefill(op.N)
	case "avgadjust":
		r.rec(inv)
		bar.DecoratorAverageAdjust(time.Now().Add(-time.Duration(op.N) * time.Second))
	case "pause":
		// the client does something else for a few refresh periods (free-running mode)
		r.rec(inv)
		if r.free {
			time.Sleep(5 * time.Millisecond)
		}
	case "abort":
		r.rec(inv)
		bar.Abort(op.Flag)
	case "prio":
		r.rec(inv)
		if op.Flag || op.N%2 == 0 {
			r.p.UpdateBarPriority(bar, libPrio(int(op.N)), op.Flag)
		} else {
			bar.SetPriority(libPrio(int(op.N))) // documented as the immediate flavour of the same call
		}
	case "get":
		r.rec(inv)
		ret["id"] = bar.ID()
		ret["running"] = bar.IsRunning()
		ret["cur"] = bar.Current()
		ret["completed"] = bar.Completed()
		ret["aborted"] = bar.Aborted()
	case "getcur":
		r.rec(inv)
		ret["res"] = bar.Current()
	case "getcomp":
		r.rec(inv)
		ret["res"] = b2i(bar.Completed())
	case "getab":
		r.rec(inv)
		ret["res"] = b2i(bar.Aborted())
	case "barwait":
		r.rec(inv)
		bar.Wait()
	case "write":
		inv["line"] = op.Line
		ret["line"] = op.Line
		more := op.More
		if more == nil {
			more = []string{}
		}
		inv["more"] = more
		r.rec(inv)
		parts := []string{op.Line + "\n"}
		for _, l := range more {
			parts[0] += l + "\n" // one Write call carrying several lines
		}
		if op.Chunks {
			parts = []string{op.Line, "\n"}
		}
		if op.Empty {
			parts = []string{""} // io.Writer: an empty slice is a valid argument
		}
		total, full := 0, true
		var err error
		ret["partial"] = false
		for k, part := range parts {
			buf := []byte(part)
			var n int
			n, err = r.p.Write(buf)
			// io.Writer: the callee must not retain the slice; the caller reuses it at once
			for i := range buf {
				buf[i] = '#'
			}
			total += n
			full = full && n == len(part)
			if err != nil {
				ret["partial"] = k > 0
				break
			}
		}
		ret["wn"] = total
		ret["full"] = full
		ret["err"] = errName(err)
	case "wait":
		r.rec(inv)
		r.p.Wait()
	case "shutdown":
		r.rec(inv)
		r.p.Shutdown()
	case "cancel":
		r.rec(inv)
		if r.cancel != nil {
			r.cancel()
		}
	case "refresh":
		r.rec(inv)
		r.mu.Lock()
		closed := r.manualClosed
		if !closed {
			r.refreshers.Add(1)
		}
		r.mu.Unlock()
		if closed {
			break // the producer has closed its channel: nothing more can be requested
		}
		// fire and forget: once the container is done nobody receives any more
		go func() {
			defer r.refreshers.Done()
			select {
			case r.manual <- time.Now():
			case <-r.stop:
			case <-r.noMoreRefresh:
			}
		}()
	case "closerefresh":
		// the producer of refresh requests closes its channel (every request still on its way is withdrawn first):
		// from now on the container is refreshed as fast as it can draw
		r.rec(inv)
		r.mu.Lock()
		closed := r.manualClosed
		r.manualClosed = true
		r.mu.Unlock()
		if !closed && r.manual != nil {
			close(r.noMoreRefresh)
			r.refreshers.Wait()
			close(r.manual)
		}
	case "delayend":
		r.rec(inv)
		if r.delay != nil {
			close(r.delay)
			r.delay = nil
		}
	default:
		r.rec(inv)
	}
	r.rec(ret)
}

// ---------------------------------------------------------------- scheduler

func (r *run) snapshot() []*gate {
	r.mu.Lock()
	gs := append([]*gate(nil), r.parked...)
	r.mu.Unlock()
	return gs
}

func (r *run) release(g *gate) {
	r.mu.Lock()
	for i, x := range r.parked {
		if x == g {
			r.parked = append(r.parked[:i], r.parked[i+1:]...)
			break
		}
	}
	r.mu.Unlock()
	close(g.rel)
}

func (r *run) allDone() bool {
	r.mu.Lock()
	defer r.mu.Unlock()
	for _, d := range r.clDone {
		if !d {
			return false
		}
	}
	return true
}

func (r *run) nEvents() int {
	r.mu.Lock()
	defer r.mu.Unlock()
	return r.seq
}

func (r *run) nFrames() int {
	r.mu.Lock()
	defer r.mu.Unlock()
	return r.frames
}

func (r *run) nCycles() int {
	r.mu.Lock()
	defer r.mu.Unlock()
	return r.cycles
}

func labels(gs []*gate) []string {
	out := make([]string, 0, len(gs))
	for _, g := range gs {
		out = append(out, g.label)
	}
	sort.Strings(out)
	return out
}

func (r *run) pendingCalls() []string {
	r.mu.Lock()
	defer r.mu.Unlock()
	var out []string
	for c, d := range r.clDone {
		if !d && r.clPC[c] < len(r.sc.Clients[c]) {
			op := r.sc.Clients[c][r.clPC[c]]
			out = append(out, fmt.Sprintf("%d:%s:%s", c, op.Op, op.B))
		}
	}
	if out == nil {
		out = []string{}
	}
	return out
}

// libGoroutines returns, for every goroutine that has a library frame (and is not a
// harness client inside a public call unless wantClients), its state and innermost frames.
func libGoroutines() []string {
	buf := make([]byte, 1<<20)
	n := runtime.Stack(buf, true)
	var out []string
	gs := strings.Split(string(buf[:n]), "\n\n")
	// the caller comes first; only goroutines of its own bubble belong to this scenario
	mine := ""
	if m := reBubble.FindString(strings.SplitN(gs[0], "\n", 2)[0]); m != "" {
		mine = m
	}
	for _, g := range gs {
		if !strings.Contains(g, "github.com/vbauerster/mpb/v8") {
			continue
		}
		if mine != "" && reBubble.FindString(strings.SplitN(g, "\n", 2)[0]) != mine {
			continue
		}
		lines := strings.Split(g, "\n")
		var frames []string
		for _, l := range lines[1:] {
			if strings.HasPrefix(l, "\t") || strings.HasPrefix(l, "created by") {
				continue
			}
			if i := strings.LastIndex(l, "("); i > 0 {
				l = l[:i]
			}
			l = strings.TrimPrefix(l, "github.com/vbauerster/mpb/v8")
			frames = append(frames, l)
			if len(frames) == 6 {
				break
			}
		}
		head := lines[0]
		if i := strings.Index(head, "["); i >= 0 {
			head = head[i:]
		}
		head = reBubble.ReplaceAllString(head, "bubble")
		out = append(out, head+" "+strings.Join(frames, " < "))
	}
	if out == nil {
		out = []string{}
	}
	return out
}

var reBubble = regexp.MustCompile(`synctest bubble \d+`)

func isClientGoroutine(s string) bool {
	return strings.Contains(s, "verif/harness.(*run).exec")
}

func (r *run) scheduler(t *testing.T) (hang string) {
	sc := r.sc
	mode := sc.Sched.Mode
	if mode == "" {
		mode = "random"
	}
	budget := sc.Sched.Budget
	if budget == 0 {
		budget = 4000
	}
	tickw := sc.Sched.TickW
	if tickw <= 0 {
		tickw = 1
	}
	auto := sc.Cfg.Refresh == "auto"
	nb := 0
	for _, cl := range sc.Clients {
		for _, op := range cl {
			if op.Op == "add" {
				nb++
			}
		}
	}
	fairFrames := 20 + 8*nb
	pos := 0
	fairFrom := -1
	fairSteps := 0
	quietTicks := 0
	var lastLabel string
	for step := 0; ; step++ {
		synctest.Wait()
		if sc.Stats && lastLabel != "" {
			r.rec(Event{"ev": "step", "g": lastLabel, "parked": labels(r.snapshot())})
		}
		lastLabel = ""
		if r.allDone() {
			return ""
		}
		all := r.snapshot()
		var cands []*gate
		for _, g := range all {
			if r.eligible(g) {
				cands = append(cands, g)
			}
		}
		if mode != "fair" && step >= budget {
			mode = "fair"
		}
		if mode == "fair" && fairFrom < 0 {
			fairFrom = r.nCycles()
			r.rec(Event{"ev": "fairmode", "step": step})
		}
		if mode == "fair" && r.nCycles()-fairFrom > fairFrames {
			return "livelock"
		}
		if mode == "fair" {
			// time passes and nothing is drawn any more (no render cycle begins): a fair drain that long is a livelock too
			fairSteps++
			if fairSteps > 8000+1000*nb {
				return "livelock"
			}
		}
		if debugSched {
			fmt.Fprintf(os.Stderr, "step %d mode %s parked %v cands %d frames %d pend %v addsLeft %d\n", step, mode, labels(all), len(cands), r.nFrames(), r.pendingCalls(), r.addsLeft)
		}
		var choice *gate
		tick := false
		switch mode {
		case "replay":
			if pos >= len(sc.Sched.Steps) {
				mode = "fair"
				step--
				continue
			}
			want := sc.Sched.Steps[pos]
			pos++
			if want == "tick" {
				tick = true
				break
			}
			for _, g := range cands {
				if g.label == want && (choice == nil || g.seq < choice.seq) {
					choice = g
				}
			}
			if choice == nil {
				r.rec(Event{"ev": "diverge", "at": pos - 1, "want": want, "parked": labels(all)})
				mode = "random"
				step--
				continue
			}
		case "random":
			// bias: delayed prefixes get a lower weight
			type wc struct {
				g *gate
				w int
			}
			var ws []wc
			total := 0
			for _, g := range cands {
				w := 4
				for _, p := range sc.Sched.Bias {
					if strings.HasPrefix(g.label, p) {
						w = 1
					}
				}
				ws = append(ws, wc{g, w})
				total += w
			}
			tw := 0
			if auto {
				tw = 2 * tickw
				if len(cands) == 0 {
					tw = 1
				} else if sc.Sched.TickW < 0 {
					tw = 0 // time passes only when nothing else can move
				}
			}
			if total+tw == 0 {
				break
			}
			x := r.rng.Intn(total + tw)
			if x >= total {
				tick = true
			} else {
				for _, c := range ws {
					if x < c.w {
						choice = c.g
						break
					}
					x -= c.w
				}
			}
		case "fair":
			for _, g := range cands {
				if choice == nil || g.seq < choice.seq {
					choice = g
				}
			}
			if choice == nil && auto {
				tick = true
			}
		}
		if choice == nil && !tick {
			if auto {
				tick = true
			} else {
				return "stuck"
			}
		}
		if tick {
			before := r.nEvents()
			nparked := len(all)
			time.Sleep(refreshRate)
			synctest.Wait()
			if len(cands) == 0 && r.nEvents() == before && len(r.snapshot()) == nparked {
				quietTicks++
				if quietTicks >= 3 {
					return "stuck"
				}
			} else {
				quietTicks = 0
			}
			lastLabel = "tick"
			continue
		}
		quietTicks = 0
		lastLabel = choice.label
		if sc.Stats {
			r.rec(Event{"ev": "rel", "g": choice.label})
		}
		r.release(choice)
	}
}

func (r *run) drain() {
	r.mu.Lock()
	r.draining = true
	gs := r.parked
	r.parked = nil
	r.mu.Unlock()
	for _, g := range gs {
		close(g.rel)
	}
}

// exitNow is set by the worker: write the events and terminate the process.
var debugSched = os.Getenv("VH_DEBUG") != ""

var exitNow = func([]Event) {}

// RunScenario executes one scenario inside a synctest bubble and returns its events.
// fatal is non-empty when the worker must not be reused (a hang leaves goroutines behind).
func RunScenario(t *testing.T, sc *Scenario) (events []Event, fatal string) {
	r := &run{sc: sc, barPtr: map[uintptr]string{}, bars: map[string]*barInfo{}, chanName: map[chan int]string{},
		goidCl: map[string]int{}}
	r.cond = sync.NewCond(&r.mu)
	currentRun.Store(r)
	lastEvent.Add(1)
	defer currentRun.Store(nil)
	r.rng = rand.New(rand.NewSource(sc.Sched.Seed))
	r.clDone = make([]bool, len(sc.Clients))
	r.clPC = make([]int, len(sc.Clients))
	for _, cl := range sc.Clients {
		for _, op := range cl {
			if op.Op == "wait" {
				break // calls after a Wait are late calls; Wait does not have to wait for them
			}
			if op.Op == "add" {
				r.addsLeft++
			}
		}
	}
	cfgj, _ := json.Marshal(sc.Cfg)
	var cfgm map[string]interface{}
	json.Unmarshal(cfgj, &cfgm)
	r.rec(Event{"ev": "begin", "cfg": cfgm, "family": sc.Family, "nclients": len(sc.Clients), "mode": sc.Sched.Mode})
	func() {
		defer func() {
			if x := recover(); x != nil {
				msg := fmt.Sprint(x)
				if strings.Contains(msg, "blocked goroutines remain") || strings.Contains(msg, "deadlock") {
					r.rec(Event{"ev": "bubble", "msg": msg})
					return
				}
				r.rec(Event{"ev": "panic", "msg": msg, "where": "harness-goroutine"})
				fatal = "panic"
			}
		}()
		synctest.Test(t, func(t *testing.T) {
			mpb.SetVerifHook(r.hook)
			defer mpb.SetVerifHook(nil)
			r.stop = make(chan struct{})
			r.outW = &outRec{r: r}
			r.dbg = &dbgRec{r: r}
			opts := []mpb.ContainerOption{mpb.WithOutput(r.outW), mpb.WithDebugOutput(r.dbg), mpb.WithRefreshRate(refreshRate)}
			if sc.Cfg.Q >= 0 {
				opts = append(opts, mpb.WithQueueLen(sc.Cfg.Q))
			}
			if sc.Cfg.UWG && len(sc.Clients) > 1 {
				r.uwg = &sync.WaitGroup{}
				r.uwgDone = map[int]bool{}
				r.uwg.Add(len(sc.Clients) - 1)
				opts = append(opts, mpb.WithWaitGroup(r.uwg))
			}
			if sc.Cfg.Width > 0 {
				opts = append(opts, mpb.WithWidth(sc.Cfg.Width))
			}
			switch sc.Cfg.Refresh {
			case "auto":
				opts = append(opts, mpb.WithAutoRefresh())
			case "manual":
				r.manual = make(chan interface{})
				r.noMoreRefresh = make(chan struct{})
				opts = append(opts, mpb.WithManualRefresh(r.manual))
				if sc.Cfg.AutoToo {
					opts = append(opts, mpb.WithAutoRefresh())
				}
			}
			if sc.Cfg.Pop {
				opts = append(opts, mpb.PopCompletedMode())
			}
			if sc.Cfg.Delay {
				r.delay = make(chan struct{})
				opts = append(opts, mpb.WithRenderDelay(r.delay))
			}
			nvals := 0
			notifDone := make(chan struct{})
			if sc.Cfg.Notifier {
				r.notif = make(chan interface{})
				opts = append(opts, mpb.WithShutdownNotifier(r.notif))
				go func() {
					defer close(notifDone)
					for {
						select {
						case v := <-r.notif:
							nvals++
							names := []string{}
							if bars, ok := v.([]*mpb.Bar); ok {
								for _, b := range bars {
									names = append(names, r.barOfPtr(ptrOf(b)))
								}
							}
							r.rec(Event{"ev": "notify", "bars": names, "nth": nvals})
						case <-r.stop:
							return
						}
					}
				}()
			} else {
				close(notifDone)
			}
			ctx := context.Background()
			if sc.Cfg.Ctx {
				ctx, r.cancel = context.WithCancel(ctx)
			}
			r.p = mpb.NewWithContext(ctx, opts...)
			for c := range sc.Clients {
				go r.client(c)
			}
			h := r.scheduler(t)
			if h != "" {
				gl := libGoroutines()
				r.rec(Event{"ev": "hang", "kind": h, "pending": r.pendingCalls(), "parked": labels(r.snapshot()), "goroutines": gl,
					"infmt": fmtSendBlocked(gl),
					"wpend": strings.Contains(strings.Join(r.pendingCalls(), " "), ":write:")})
				r.rec(Event{"ev": "end"})
				// the bubble cannot be left (a livelocked container keeps its fake clock
				// running): hand the events to the worker, which writes them and exits
				exitNow(r.events)
				return
			}
			// every client call has returned
			r.drain()
			synctest.Wait()
			if sc.Cfg.Notifier {
				// give the notifier goroutine a chance; exactly one value is expected
				time.Sleep(time.Millisecond)
				synctest.Wait()
			}
			nf := r.nFrames()
			time.Sleep(3 * refreshRate)
			synctest.Wait()
			if r.nFrames() != nf {
				r.rec(Event{"ev": "latewrite", "n": r.nFrames() - nf})
			}
			close(r.stop)
			<-notifDone
			synctest.Wait()
			leaks := []string{}
			for _, g := range libGoroutines() {
				leaks = append(leaks, g)
			}
			allfmt := true // every leaked goroutine is blocked in a width exchange (decor.WC.Format)
			for _, g := range leaks {
				if i := strings.Index(g, "]: "); i < 0 || !strings.HasPrefix(g[i+3:], "/decor.WC.Format") {
					allfmt = false
				}
			}
			// (and one of them has not even handed in its width: that is what the recorded finding F5 leaves behind - a distributor
			// that gave up while collecting; goroutines that all wait for the column's width to come back are something else)
			allfmt = allfmt && fmtSendBlocked(leaks)
			r.rec(Event{"ev": "quiesce", "leaks": leaks, "nleaks": len(leaks), "notified": nvals, "allfmt": allfmt})
			if r.cancel != nil {
				r.cancel()
			}
		})
	}()
	r.rec(Event{"ev": "end"})
	return r.events, fatal
}
