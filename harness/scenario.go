package harness

// Scenario format shared by the TLC-driven replays, the random drivers and the
// stored counterexamples. A scenario is a container configuration, one program per
// client goroutine, and a scheduling policy.

type DecorSpec struct {
	Sync   bool     `json:"sync"`
	W      int      `json:"w"`      // WC.W
	Space  bool     `json:"space"`  // DextraSpace
	Right  bool     `json:"right"`  // DindentRight
	Needs  []int    `json:"needs"`  // extra 'x' characters per call (cycled)
	Glyph  int      `json:"glyph"`  // what the extra characters are: 0 "x", 1 a double-width rune, 2 "x" + a combining mark
	Listen bool     `json:"listen"` // implements ShutdownListener
	Ewma   bool     `json:"ewma"`   // implements EwmaDecorator
	Avg    bool     `json:"avg"`    // carries the library's average ETA / speed decorators (AverageDecorator)
	Wrap   []string `json:"wrap"`   // wrappers, innermost first: oncomplete onabort meta custom
}

type Fault struct {
	Kind string `json:"kind"`           // fill | ext | out
	At   int    `json:"at"`             // k-th call (1-based); -k: k-th call after the done channel is closed; 0 with When
	When string `json:"when,omitempty"` // "C": the first Fill that sees the bar completed
}

type Op struct {
	Op      string      `json:"op"`
	B       string      `json:"b,omitempty"`
	N       int64       `json:"n,omitempty"`
	Flag    bool        `json:"flag,omitempty"` // drop / complete / lazy
	Total   int64       `json:"total,omitempty"`
	Rm      bool        `json:"rm,omitempty"`
	NoPop   bool        `json:"nopop,omitempty"`
	After   string      `json:"after,omitempty"`
	Prio    *int        `json:"prio,omitempty"`
	ID      *int        `json:"id,omitempty"` // BarID (ids may collide: they are labels, not keys)
	Pre     []DecorSpec `json:"pre,omitempty"`
	App     []DecorSpec `json:"app,omitempty"`
	Ext     int         `json:"ext,omitempty"` // extender rows
	ExtRv   bool        `json:"extrev,omitempty"`
	ExtFrag bool        `json:"extfrag,omitempty"` // the extender ends its output with an unterminated fragment
	Trim    bool        `json:"trim,omitempty"`
	Fault   *Fault      `json:"fault,omitempty"`
	Line    string      `json:"line,omitempty"`
	More    []string    `json:"more,omitempty"`   // further lines of the same Write call
	Empty   bool        `json:"empty,omitempty"`  // Write(nil): nothing to write
	Chunks  bool        `json:"chunks,omitempty"` // the line reaches the container in two Write calls: its text, then its line feed
	When    *When       `json:"when,omitempty"`   // the call is issued only once a bar has been drawn so many times in a terminal state
}

// When ties a call to the frames: "after bar B's TF-th frame in a terminal state has been drawn" (the container serves the
// call between that frame and the next one it is asked for, which is how a program aims at a particular frame window).
type When struct {
	B  string `json:"b"`
	TF int    `json:"tf"`
}

type Cfg struct {
	Q        int    `json:"q"`       // WithQueueLen; <0 means default
	Refresh  string `json:"refresh"` // auto | manual | none
	Pop      bool   `json:"pop"`
	Notifier bool   `json:"notifier"`
	Width    int    `json:"width"`
	Delay    bool   `json:"delay"`    // WithRenderDelay
	OutFault int    `json:"outfault"` // k-th output Write fails (0 = never)
	Ctx      bool   `json:"ctx"`      // NewWithContext with a harness-owned cancel
	Narrow   bool   `json:"narrow"`   // the width is too small for the rows to be parsed: only rules that do not read row contents apply
	UWG      bool   `json:"uwg"`      // WithWaitGroup: the clients other than the first are "workers" of a user wait group
	AutoToo  bool   `json:"autotoo"`  // WithAutoRefresh() given together with WithManualRefresh (manual wins, as documented)
}

type Sched struct {
	Mode   string   `json:"mode"` // random | replay | fifo | free
	Seed   int64    `json:"seed"`
	TickW  int      `json:"tickw"`  // relative weight of a tick (random mode); 0 => 1
	Steps  []string `json:"steps"`  // replay: gate labels, "tick"
	Budget int      `json:"budget"` // max scheduler steps before the fair drain; 0 => default
	Bias   []string `json:"bias"`   // label prefixes to delay (random mode)
}

type Scenario struct {
	ID      string `json:"id"`
	Family  string `json:"family"`
	Cfg     Cfg    `json:"cfg"`
	Clients [][]Op `json:"clients"`
	Sched   Sched  `json:"sched"`
	Stats   bool   `json:"stats"` // emit gate events with parked sets (trace validation)
}
