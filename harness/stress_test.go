package harness

import (
	"bufio"
	"fmt"
	"io"
	"math/rand"
	"os"
	"strconv"
	"sync"
	"sync/atomic"
	"testing"
	"time"

	"github.com/vbauerster/mpb/v8"
	"github.com/vbauerster/mpb/v8/decor"
)

// Stress runs for two consequences of BarState.tla + linearizability that need thousands of overlapping calls to show:
//   mono:   under positive increments and SetTotal(-1, complete) the counter never goes down (AdoptKeepsCounter: adopting
//           the counter as the total does not change the counter; increments only add)
//   stable: once Completed() has returned true it returns true for ever, whatever Abort calls overlap the last increment
// A decorator that takes its time keeps the bar's goroutine busy, so that calls of several clients queue up behind a frame.

type slowDecor struct {
	decor.WC
	d time.Duration
}

func (s *slowDecor) Decor(decor.Statistics) (string, int) {
	time.Sleep(s.d)
	return s.Format("x")
}

func newSlow() decor.Decorator {
	d := &slowDecor{d: 200 * time.Microsecond}
	d.WC.Init()
	return d
}

func stressMono(rng *rand.Rand) string {
	p := mpb.New(mpb.WithOutput(io.Discard), mpb.WithAutoRefresh(), mpb.WithRefreshRate(time.Millisecond))
	bar := p.AddBar(0, mpb.PrependDecorators(newSlow()))
	var wg sync.WaitGroup
	var bad atomic.Value
	for w := 0; w < 4; w++ {
		wg.Add(1)
		go func(w int) {
			defer wg.Done()
			last := int64(-1)
			for i := 0; i < 25; i++ {
				bar.Increment()
				c := bar.Current()
				if c < last {
					bad.Store(fmt.Sprintf("worker %d saw Current() go down from %d to %d (only increments and SetTotal(-1, true) were issued)", w, last, c))
					return
				}
				last = c
			}
		}(w)
	}
	delay := time.Duration(rng.Intn(1500)) * time.Microsecond
	wg.Add(1)
	go func() {
		defer wg.Done()
		time.Sleep(delay)
		bar.SetTotal(-1, true)
	}()
	wg.Wait()
	bar.Abort(false)
	p.Wait()
	if s, ok := bad.Load().(string); ok {
		return s
	}
	return ""
}

func stressStable(rng *rand.Rand) string {
	p := mpb.New(mpb.WithOutput(io.Discard), mpb.WithAutoRefresh(), mpb.WithRefreshRate(time.Millisecond))
	const total = 40
	bar := p.AddBar(total, mpb.PrependDecorators(newSlow()))
	var wg sync.WaitGroup
	var bad atomic.Value
	stop := make(chan struct{})
	for w := 0; w < 2; w++ {
		wg.Add(1)
		go func() {
			defer wg.Done()
			for i := 0; i < total/2; i++ {
				bar.Increment()
			}
		}()
	}
	var rd sync.WaitGroup
	for r := 0; r < 2; r++ {
		rd.Add(1)
		go func() {
			defer rd.Done()
			seen := false
			for {
				select {
				case <-stop:
					return
				default:
				}
				c := bar.Completed()
				if seen && !c {
					bad.Store(fmt.Sprintf("Completed() had returned true and now returns false (Aborted() = %v)", bar.Aborted()))
					return
				}
				seen = seen || c
			}
		}()
	}
	// the Abort arrives when the bar is about to reach its total: it overlaps one of the last increments
	near := int64(total - 1 - rng.Intn(3))
	wg.Add(1)
	go func() {
		defer wg.Done()
		for i := 0; i < 1000000 && bar.Current() < near; i++ {
		}
		bar.Abort(false)
	}()
	wg.Wait()
	time.Sleep(2 * time.Millisecond)
	close(stop)
	rd.Wait()
	bar.Abort(false)
	p.Wait()
	if s, ok := bad.Load().(string); ok {
		return s
	}
	return ""
}

// stressExclusive: Exclusive and the stability clauses of BarRules.tla at every moment, not only at the end.  A bar reaches a
// terminal state in a container that refreshes once an hour, so its goroutine stays alive and every getter is a round trip;
// several goroutines ask Completed() and several ask Aborted() at the same time.  Every answer must be the bar's state.
func stressExclusive(rng *rand.Rand) string {
	p := mpb.New(mpb.WithOutput(io.Discard), mpb.WithAutoRefresh(), mpb.WithRefreshRate(time.Hour))
	other := p.AddBar(1)
	bar := p.AddBar(3)
	abort := rng.Intn(2) == 0
	if abort {
		bar.IncrBy(1)
		bar.Abort(false)
	} else {
		bar.IncrBy(3)
	}
	// the terminal answer is in once one sequential read has seen it
	for i := 0; i < 1000000 && !(bar.Completed() || bar.Aborted()); i++ {
	}
	var bad atomic.Value
	var wg sync.WaitGroup
	for g := 0; g < 6; g++ {
		wg.Add(1)
		go func(g int) {
			defer wg.Done()
			for i := 0; i < 400; i++ {
				if g%2 == 0 {
					if c := bar.Completed(); c == abort {
						bad.Store(fmt.Sprintf("Completed() = %v on a bar that was %s, while other goroutines ask Aborted()", c, map[bool]string{true: "aborted", false: "completed"}[abort]))
						return
					}
				} else if a := bar.Aborted(); a != abort {
					bad.Store(fmt.Sprintf("Aborted() = %v on a bar that was %s, while other goroutines ask Completed()", a, map[bool]string{true: "aborted", false: "completed"}[abort]))
					return
				}
			}
		}(g)
	}
	wg.Wait()
	other.IncrBy(1)
	p.Shutdown()
	if s, ok := bad.Load().(string); ok {
		return s
	}
	return ""
}

func TestStress(t *testing.T) {
	outp := os.Getenv("VH_OUT")
	if outp == "" {
		t.Skip("VH_OUT not set")
	}
	seed, _ := strconv.ParseInt(os.Getenv("VH_SEED"), 10, 64)
	trials, _ := strconv.Atoi(os.Getenv("VH_N"))
	if trials == 0 {
		trials = 300
	}
	o, _ := os.Create(outp)
	defer o.Close()
	w := bufio.NewWriter(o)
	defer w.Flush()
	rng := rand.New(rand.NewSource(seed))
	n := 0
	for i := 0; i < trials; i++ {
		for k, f := range []func(*rand.Rand) string{stressMono, stressStable, stressExclusive} {
			n++
			if msg := f(rng); msg != "" {
				fmt.Fprintf(w, "{\"row\":%d,\"kind\":%q,\"msg\":%q}\n", i, []string{"mono", "stable", "exclusive"}[k], msg)
			}
		}
	}
	fmt.Fprintf(w, "{\"done\":%d}\n", n)
}
