package harness

import (
	"bufio"
	"fmt"
	"os"
	"regexp"
	"strconv"
	"strings"
	"sync"
	"sync/atomic"
	"testing"
	"time"

	"github.com/vbauerster/mpb/v8"
	"github.com/vbauerster/mpb/v8/decor"
)

// Several containers at work in one process at the same time.  Each has its own number of one-row bars, none of
// which finishes while frames are requested, so every frame but the first must begin with a cursor-up of exactly
// that container's row count (the frame protocol of TermDesign.tla with nothing popped) and carry that many rows:
// whatever one container does must not show in another one's output.
var reTwinCUU = regexp.MustCompile(`^\x1b\[(\d+)A\x1b\[J`)

type twinOut struct {
	rows   int
	frames int
	bad    []string
	mu     sync.Mutex
}

func (o *twinOut) Write(p []byte) (int, error) {
	o.mu.Lock()
	defer o.mu.Unlock()
	if o.rows < 0 {
		return len(p), nil // the frames of the shutdown are not judged
	}
	s := string(p)
	if m := reTwinCUU.FindStringSubmatch(s); m != nil {
		n, _ := strconv.Atoi(m[1])
		if n != o.rows && len(o.bad) < 5 {
			o.bad = append(o.bad, fmt.Sprintf("a container with %d rows moved the cursor up %d lines (frame %d)", o.rows, n, o.frames))
		}
		s = s[len(m[0]):]
	} else if o.frames > 0 && len(o.bad) < 5 {
		o.bad = append(o.bad, fmt.Sprintf("frame %d of a container with %d rows does not begin with cursor-up + erase: %q", o.frames, o.rows, s[:min(len(s), 20)]))
	}
	if n := strings.Count(s, "\n"); n != o.rows && len(o.bad) < 5 {
		o.bad = append(o.bad, fmt.Sprintf("frame %d of a container with %d rows has %d lines", o.frames, o.rows, n))
	}
	o.frames++
	return len(p), nil
}

func TestTwins(t *testing.T) {
	outp := os.Getenv("VH_OUT")
	if outp == "" {
		t.Skip("VH_OUT not set")
	}
	nframes, _ := strconv.Atoi(os.Getenv("VH_N"))
	if nframes == 0 {
		nframes = 400
	}
	o, _ := os.Create(outp)
	defer o.Close()
	w := bufio.NewWriter(o)
	defer w.Flush()
	const K = 10
	outs := make([]*twinOut, K)
	var wg sync.WaitGroup
	var total atomic.Int64
	for k := 0; k < K; k++ {
		outs[k] = &twinOut{rows: k + 1}
		wg.Add(1)
		go func(k int) {
			defer wg.Done()
			refresh := make(chan interface{})
			p := mpb.New(mpb.WithOutput(outs[k]), mpb.WithWidth(40), mpb.WithManualRefresh(refresh))
			bars := make([]*mpb.Bar, k+1)
			for i := range bars {
				bars[i] = p.AddBar(1000000, mpb.PrependDecorators(decor.Name(fmt.Sprintf("c%db%d", k, i))))
			}
			for f := 0; f < nframes; f++ {
				bars[f%len(bars)].Increment()
				select {
				case refresh <- time.Now():
				case <-time.After(2 * time.Second):
					return
				}
			}
			// let the last frame be written, then end the container without drawing the bars as finished
			time.Sleep(5 * time.Millisecond)
			outs[k].mu.Lock()
			total.Add(int64(outs[k].frames))
			outs[k].rows = -1
			outs[k].mu.Unlock()
			for _, b := range bars {
				b.Abort(true)
			}
			done := make(chan struct{})
			go func() { p.Wait(); close(done) }()
			for {
				select {
				case <-done:
					return
				case refresh <- time.Now():
				case <-time.After(3 * time.Second):
					return
				}
			}
		}(k)
	}
	wg.Wait()
	for k, out := range outs {
		for _, b := range out.bad {
			fmt.Fprintf(w, "{\"row\":%d,\"msg\":%q}\n", k, b)
		}
	}
	fmt.Fprintf(w, "{\"done\":%d}\n", total.Load())
}
