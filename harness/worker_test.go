package harness

import (
	"bufio"
	"encoding/json"
	"os"
	"strconv"
	"sync/atomic"
	"testing"
	"time"
)

// TestWorker runs the scenarios of $VH_IN (ndjson) from index $VH_FROM on and appends
// their events to $VH_OUT. It exits with status 3 after a hang (the parent restarts a
// fresh worker on the remaining scenarios); a library panic kills the process and the
// parent attributes it to the scenario whose "begin" has no "end".
var curIdx atomic.Int64

func TestWorker(t *testing.T) {
	in := os.Getenv("VH_IN")
	if in == "" {
		t.Skip("VH_IN not set")
	}
	from, _ := strconv.Atoi(os.Getenv("VH_FROM"))
	f, err := os.Open(in)
	if err != nil {
		t.Fatal(err)
	}
	defer f.Close()
	out, err := os.OpenFile(os.Getenv("VH_OUT"), os.O_APPEND|os.O_CREATE|os.O_WRONLY, 0o644)
	if err != nil {
		t.Fatal(err)
	}
	w := bufio.NewWriterSize(out, 1<<20)
	emit := func(evs []Event) {
		for _, e := range evs {
			b, _ := json.Marshal(e)
			w.Write(b)
			w.WriteByte('\n')
		}
		w.Flush()
	}
	sink = func(e Event) {
		b, _ := json.Marshal(e)
		w.Write(b)
		w.WriteByte('\n')
		w.Flush()
	}
	// watchdog (real time, outside every bubble): a scenario during which nothing is recorded for 12 s has a goroutine
	// that spins without ever blocking - a livelock the gate scheduler cannot see, because the bubble never comes to rest
	go func() {
		seen, quiet := int64(-1), 0
		for {
			time.Sleep(500 * time.Millisecond)
			r := currentRun.Load()
			if n := lastEvent.Load(); r == nil || n != seen {
				seen, quiet = n, 0
				continue
			}
			if quiet++; quiet >= 24 {
				r.spinning()
				b, _ := json.Marshal(Event{"ev": "finish", "tr": r.sc.ID, "idx": int(curIdx.Load()), "fatal": "hang"})
				w.Write(b)
				w.WriteByte('\n')
				w.Flush()
				os.Exit(3)
			}
		}
	}()
	scn := bufio.NewScanner(f)
	scn.Buffer(make([]byte, 1<<20), 1<<26)
	idx := -1
	for scn.Scan() {
		idx++
		if idx < from {
			continue
		}
		var sc Scenario
		if err := json.Unmarshal(scn.Bytes(), &sc); err != nil {
			t.Fatalf("scenario %d: %v", idx, err)
		}
		curIdx.Store(int64(idx))
		// the begin marker is written before the run so that a crash is attributable
		b, _ := json.Marshal(Event{"ev": "start", "tr": sc.ID, "idx": idx})
		w.Write(b)
		w.WriteByte('\n')
		w.Flush()
		exitNow = func(evs []Event) {
			emit(evs)
			b, _ := json.Marshal(Event{"ev": "finish", "tr": sc.ID, "idx": idx, "fatal": "hang"})
			w.Write(b)
			w.WriteByte('\n')
			w.Flush()
			os.Exit(3)
		}
		var evs []Event
		var fatal string
		if sc.Sched.Mode == "free" {
			evs, fatal = RunFree(&sc)
		} else {
			evs, fatal = RunScenario(t, &sc)
		}
		emit(evs)
		b, _ = json.Marshal(Event{"ev": "finish", "tr": sc.ID, "idx": idx, "fatal": fatal})
		w.Write(b)
		w.WriteByte('\n')
		w.Flush()
		if fatal != "" {
			os.Exit(3)
		}
	}
}
