import sys, json, glob
wd=sys.argv[1]; tr=sys.argv[2]
full = len(sys.argv)>3
scs={s['id']:s for s in json.load(open(wd+'/scs.json'))}
print(json.dumps(scs[tr]['cfg']))
for c,p in enumerate(scs[tr]['clients']):
    print('client',c)
    for o in p: print('   ',json.dumps(o) if o['op']=='add' else o)
for f in glob.glob(wd+'/ev-*.ndjson'):
    for l in open(f):
        e=json.loads(l)
        if e.get('tr')!=tr: continue
        ev=e['ev']
        if ev in('fmt','fmtret','fill','rel','hmreq','flush') and not full: continue
        if ev=='step':
            if full: print('   .', e['g'], e['parked'])
            continue
        if ev=='out':
            print(e['seq'],'OUT k=%d cuu=%d text=%s'%(e['k'],e['cuu'],e['text']), ' | '.join('%s %d/%d %s e%d'%(g['b'],g['cur'],g['tot'],g['fl'],g['ext']) for g in e['groups']), e['malformed'] or '')
        elif ev in('inv','ret'):
            extra={k:v for k,v in e.items() if k in('cur','completed','aborted','running','err','wn','line','total') }
            print(e['seq'],ev,e['c'],e['op'],e.get('b',''),e.get('n',''),e.get('flag',''),extra if ev=='ret' or e['op']=='add' else '')
        else:
            print(e.get('seq'),ev,{k:v for k,v in e.items() if k not in('seq','tr','ev','cfg')})
for b in json.load(open(wd+'/bad.json')):
    if b['tr']==tr: print('BAD',b)
