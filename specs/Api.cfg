SPECIFICATION Spec
INVARIANTS NeverPanics EmitCase
CHECK_DEADLOCK FALSE
