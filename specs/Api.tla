-------------------------------- MODULE Api --------------------------------
(***************************************************************************)
(* C02, the "valid but unusual arguments" side: every place where the      *)
(* library documents (or guards) that a nil value is accepted.  A case is  *)
(* a site, the kind of nil handed to it and the container's refresh mode;  *)
(* for every case the program "create the container, add two bars (one of  *)
(* them with the unusual argument), draw frames, finish the bars, Wait"    *)
(* must run to its end: no panic in any goroutine, Wait returns, late      *)
(* calls behave as documented.  TLC enumerates the cases (and checks that  *)
(* the table is total and consistent); the driver runs each case in a      *)
(* process of its own, since a panic in a library goroutine cannot be      *)
(* recovered.                                                              *)
(***************************************************************************)
EXTENDS Integers, Sequences, FiniteSets, TLC, Json

Sites == {"add-filler", "new-builder", "builder-returns-nil", "extender", "prepend-decorator", "append-decorator",
          "filler-middleware", "bar-option", "container-option", "output", "debug-output",
          "shutdown-notifier", "manual-refresh-channel", "queue-after", "render-delay"}
(* the conditional helpers (BarOptional, BarOptOn, BarFuncOptional, BarFuncOptOn and their Container twins) hand the
   library nil when the condition is false and the option itself when it is true; the Func flavours must not even
   build the option when the condition is false *)
Helpers == {"optional", "opt-on", "func-optional", "func-opt-on"}
HelperKinds == {h \o ":" \o b : h \in Helpers, b \in {"false", "true"}}
Kinds == {"nil", "typed-nil"} \cup HelperKinds
IsTrueHelper(k) == k \in {h \o ":true" : h \in Helpers}
Modes == {"manual", "auto", "none"}

(* a typed nil exists only where the parameter is an interface that a nil func value can inhabit *)
HasTypedNil(site) == site \in {"add-filler", "extender", "builder-returns-nil"}
Valid(c) == /\ (c.kind = "typed-nil" => HasTypedNil(c.site))
            /\ (c.kind \in HelperKinds => c.site \in {"bar-option", "container-option"})
            /\ (c.site = "manual-refresh-channel" => c.mode = "manual")

Cases == {c \in [site : Sites, kind : Kinds, mode : Modes] : Valid(c)}

(* what the documentation promises for the case *)
\* frames reach the output (a nil output discards everything; a nil refresh channel means no manual refresh)
\* (the option a container helper guards is "no output": when it is applied nothing may reach the writer)
Applied(c) == IsTrueHelper(c.kind)
Drawn(c) == c.mode # "none" /\ c.site \notin {"output", "manual-refresh-channel"} /\ ~(c.site = "container-option" /\ Applied(c))
\* optionApplied: the guarded option takes effect (bar: the id it sets; container: no output); optionBuilt: a Func flavour
\* calls its constructor exactly when the condition holds
Expect(c) == [panics |-> FALSE, waitReturns |-> TRUE, framesWritten |-> Drawn(c), lateAddIsErrDone |-> TRUE,
              optionApplied |-> Applied(c), optionBuilt |-> Applied(c)]

VARIABLE c
Init == c \in Cases
Next == UNCHANGED c
Spec == Init /\ [][Next]_c

Total == \A s \in Sites : \E x \in Cases : x.site = s
ASSUME Total
ASSUME \A k \in HelperKinds, m \in Modes : \A st \in {"bar-option", "container-option"} : [site |-> st, kind |-> k, mode |-> m] \in Cases
NeverPanics == ~Expect(c).panics /\ Expect(c).waitReturns
EmitCase == PrintT(<<"API", ToJson([c |-> c, expect |-> Expect(c)])>>)
=============================================================================
