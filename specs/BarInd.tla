------------------------------ MODULE BarInd ------------------------------
(***************************************************************************)
(* The rules of BarRules.tla for EVERY integer total and argument (C09,    *)
(* C11).  TLC enumerates BarRules over a handful of small numbers; here    *)
(* Apalache discharges an inductive invariant with unbounded integers:     *)
(*                                                                         *)
(*   apalache-mc check --init=IndInit --next=UNext --inv=IndInv --length=1 *)
(*        (IndInv is preserved by every rule, for all integers)            *)
(*   apalache-mc check --init=UInit   --next=UNext --inv=IndInv --length=0 *)
(*        (every initial bar satisfies it)                                 *)
(*   ... --init=IndInit --next=UNext --inv=Act<k> --length=1               *)
(*        (the action properties of BarRules hold for every step taken     *)
(*         from a state that satisfies IndInv)                             *)
(*                                                                         *)
(* UNext is Next of BarRules with `\E n \in Int` in place of `\E n \in     *)
(* Args`; the action bodies are the operators of BarRules themselves.      *)
(***************************************************************************)
EXTENDS BarRules

ConstInit == Fixed = TRUE /\ Totals = {0} /\ Args = {0}
ConstInitOrig == Fixed = FALSE /\ Totals = {0} /\ Args = {0}

UInit == /\ total \in Int /\ current = 0 /\ refill = 0
         /\ trig = (total > 0) /\ aborted = FALSE /\ rm = FALSE /\ phase = "live"
         /\ last = [op |-> "new", a |-> total, f |-> FALSE, applied |-> TRUE]

UNext ==
  \/ \E n \in Int : Call("incr", n, FALSE, Incr(n))
  \/ \E v \in Int : Call("setcur", v, FALSE, SetCurrent(v))
  \/ \E t \in Int, c \in BOOLEAN : Call("settotal", t, c, SetTotal(t, c))
  \/ Call("trigger", 0, FALSE, EnableTrigger)
  \/ \E a \in Int : Call("refill", a, FALSE, SetRefill(a))
  \/ \E d \in BOOLEAN : Call("abort", 0, d, Abort(d))
  \/ Exit /\ last' = [op |-> "exit", a |-> 0, f |-> FALSE, applied |-> TRUE]
  \/ Cancel /\ last' = [op |-> "cancel", a |-> 0, f |-> FALSE, applied |-> TRUE]

Ops == {"new", "incr", "setcur", "settotal", "trigger", "refill", "abort", "exit", "cancel"}

TypeOK ==
  /\ total \in Int /\ current \in Int /\ refill \in Int
  /\ trig \in BOOLEAN /\ aborted \in BOOLEAN /\ rm \in BOOLEAN
  /\ phase \in {"live", "term", "exited"}
  /\ last \in [op : Ops, a : Int, f : BOOLEAN, applied : BOOLEAN]

(* a bar without a terminal event is neither aborted nor complete, and once the trigger is on its counter is below its total *)
LiveIsOpen == phase = "live" => (~aborted /\ (trig => current < total))
(* C09: once completion triggering is on the counter of a bar that was not aborted never exceeds its total *)
CappedAtTotal == (trig /\ ~aborted) => current <= total
(* C11: what the bar's goroutine publishes is one of the two terminal states *)
ExitedIsTerminal == phase = "exited" => (Completed # Aborted)

IndInv == /\ TypeOK /\ LiveIsOpen /\ CappedAtTotal /\ ExitedIsTerminal
          /\ Exclusive /\ ExactlyOneAtExit /\ NeverOverTotal /\ RefillCapped

IndInit == IndInv

(* the action properties of BarRules, as action invariants (one step from any state that satisfies IndInv) *)
ActCompletedStable == (Completed /\ NonDecreasing) => Completed'
ActAbortedStable == Aborted => (Aborted' /\ ~Completed')
ActNoCompletionWithoutTrigger ==
  (~trig /\ last'.op \in {"incr", "setcur", "refill"}) => (~Completed' /\ phase' = phase)
ActAbortNoEffectOnCompleted == (Completed /\ last'.op = "abort") => (Completed' /\ ~Aborted')
ActAdoptKeepsCounter ==
  ~aborted => /\ ((last'.op = "settotal" /\ last'.a < 0) => current' = current)
              /\ ((last'.op = "incr" /\ last'.a > 0 /\ (~trig \/ current <= total)) => current' >= current)
ActSetTotalIgnoredWhenTriggered == (trig /\ last'.op = "settotal") => total' = total
(* C11, both halves at once: a terminal answer, once given, is the answer for ever, whatever is called and whatever the arguments,
   as long as the counter is not moved backwards *)
ActTerminalForEver ==
  /\ (Aborted => Aborted')
  /\ ((Completed /\ current' >= current) => (Completed' /\ ~Aborted'))
(* C09: a positive increment on a bar whose trigger is on and which has not ended adds exactly min(n, total - current) *)
ActIncrementAccumulates ==
  (last'.op = "incr" /\ last'.applied /\ last'.a >= 0 /\ ~aborted /\ phase # "exited") =>
     current' = IF trig /\ current + last'.a >= total THEN total ELSE current + last'.a
(* C09: a negative SetCurrent is ignored *)
ActNegativeSetCurrentIgnored == (last'.op = "setcur" /\ last'.a < 0) => (current' = current /\ phase' = phase)
=============================================================================
