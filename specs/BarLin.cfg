SPECIFICATION LSpec
CONSTANTS
  Totals <- MCTotals
  Args <- MCArgs
  Fixed = TRUE
POSTCONDITION Report
CHECK_DEADLOCK FALSE
