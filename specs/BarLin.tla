------------------------------ MODULE BarLin ------------------------------
(***************************************************************************)
(* Linearizability of concurrent bar operations (C10) against the          *)
(* sequential rules of BarState.  A history is the list of calls made by   *)
(* several client goroutines on one bar, each with the global sequence     *)
(* numbers of its invocation and its return and, for getters, the value    *)
(* returned.  TLC searches for linearization points: a call may take       *)
(* effect once every call that returned before its invocation has taken    *)
(* effect; the bar's own exit is a silent step.  A history is accepted     *)
(* when some order explains every returned value.  Many histories are      *)
(* checked in one run: from any state TLC may move on to the next history, *)
(* and a register remembers which histories reached their end.             *)
(***************************************************************************)
EXTENDS BarState, FiniteSets, IOUtils

Hist == ndJsonDeserialize(IOEnv.LIN_TRACE)
N    == Len(Hist)

VARIABLES h, done
lvars == <<total, current, refill, trig, aborted, rm, phase, last, h, done>>

Ops(i) == Hist[i].ops

Start(i) ==
  /\ h' = i /\ done' = {}
  /\ IF i <= N
     THEN /\ total' = Hist[i].total /\ trig' = (Hist[i].total > 0)
     ELSE /\ total' = 0 /\ trig' = FALSE
  /\ current' = 0 /\ refill' = 0 /\ aborted' = FALSE /\ rm' = FALSE /\ phase' = "live"
  /\ last' = [op |-> "new", a |-> 0, f |-> FALSE, applied |-> TRUE]

LInit ==
  /\ \A i \in 1..N : TLCSet(i, FALSE)
  /\ h = 1 /\ done = {}
  /\ total = (IF N >= 1 THEN Hist[1].total ELSE 0) /\ trig = (IF N >= 1 THEN Hist[1].total > 0 ELSE FALSE)
  /\ current = 0 /\ refill = 0 /\ aborted = FALSE /\ rm = FALSE /\ phase = "live"
  /\ last = [op |-> "new", a |-> 0, f |-> FALSE, applied |-> TRUE]

Ready(k) == /\ k \notin done
            /\ \A j \in DOMAIN Ops(h) : Ops(h)[j].ret < Ops(h)[k].inv => j \in done

Getter(v) == /\ UNCHANGED view

Effect(o) ==
  CASE o.op = "incr"     -> Incr(o.a) \/ Dropped
    [] o.op = "setcur"   -> SetCurrent(o.a) \/ Dropped
    [] o.op = "settotal" -> SetTotal(o.a, o.f) \/ Dropped
    [] o.op = "trigger"  -> EnableTrigger \/ Dropped
    [] o.op = "refill"   -> SetRefill(o.a) \/ Dropped
    [] o.op = "abort"    -> Abort(o.f) \/ Dropped
    [] o.op = "getcur"   -> UNCHANGED view /\ o.res = current
    [] o.op = "getcomp"  -> UNCHANGED view /\ o.res = (IF Completed THEN 1 ELSE 0)
    [] o.op = "getab"    -> UNCHANGED view /\ o.res = (IF aborted THEN 1 ELSE 0)
    [] o.op = "barwait"  -> UNCHANGED view /\ phase = "exited"
    [] o.op = "cancel"   -> (Cancel \/ (phase # "live" /\ UNCHANGED view))
    [] OTHER             -> UNCHANGED view

Lin(k) ==
  /\ h <= N /\ k \in DOMAIN Ops(h) /\ Ready(k)
  /\ Effect(Ops(h)[k])
  /\ done' = done \cup {k}
  /\ IF done' = DOMAIN Ops(h) THEN TLCSet(h, TRUE) ELSE TRUE
  /\ UNCHANGED <<h, last>>

Silent == h <= N /\ Exit /\ UNCHANGED <<h, done, last>>

Advance == h <= N /\ Start(h + 1)

LNext == (\E k \in 1..20 : Lin(k)) \/ Silent \/ Advance

LSpec == LInit /\ [][LNext]_lvars

(* evaluated once, after the search: which histories found no linearization *)
Report ==
  LET failed == {i \in 1..N : ~TLCGet(i)} IN
  /\ JsonSerialize(IOEnv.LIN_OUT, [failed |-> {Hist[i].id : i \in failed}, n |-> N])
  /\ PrintT(<<"LIN-RESULT", N, Cardinality(failed)>>)
=============================================================================
