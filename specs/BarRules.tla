----------------------------- MODULE BarRules -----------------------------
(***************************************************************************)
(* The sequential rules of one bar: counters, completion trigger, abort,   *)
(* refill, and what the getters return (properties C09 and C11, the        *)
(* sequential side of C10 and the counter clauses of C19).  One action per *)
(* public mutator; the bodies follow the documented rules (bar.go).        *)
(*                                                                         *)
(* phase "live"  : no terminal event yet; every call is applied.           *)
(* phase "term"  : a terminal event has cancelled the bar; its goroutine   *)
(*                 has not noticed yet, so a call is applied or dropped.   *)
(* phase "exited": the goroutine has published its state; calls do nothing *)
(*                 and getters return the final values.                    *)
(* (In a refreshing container the cancellation comes later, from the       *)
(* container; the rules are the same, the window is longer.)               *)
(***************************************************************************)
(* This module holds the rules and their properties and nothing else, with  *)
(* Apalache type annotations: TLC enumerates it through BarState.tla (small  *)
(* argument sets, complete transition relation for the replay), Apalache     *)
(* checks the same actions for every integer through BarInd.tla.             *)
(***************************************************************************)
EXTENDS Integers

CONSTANTS
  \* @type: Set(Int);
  Totals,     \* initial totals
  \* @type: Set(Int);
  Args,       \* integer arguments of the calls
  \* @type: Bool;
  Fixed       \* TRUE: completed() requires ~aborted (the repaired rule)

VARIABLES
  \* @type: Int;
  total,
  \* @type: Int;
  current,
  \* @type: Int;
  refill,
  \* @type: Bool;
  trig,
  \* @type: Bool;
  aborted,
  \* @type: Bool;
  rm,
  \* @type: Str;
  phase,
  \* @type: { op: Str, a: Int, f: Bool, applied: Bool };
  last
vars  == <<total, current, refill, trig, aborted, rm, phase, last>>
view  == <<total, current, refill, trig, aborted, rm, phase>>

Completed == trig /\ current = total /\ (Fixed => ~aborted)
Aborted   == aborted
Current   == current

Init == /\ total \in Totals /\ current = 0 /\ refill = 0
        /\ trig = (total > 0) /\ aborted = FALSE /\ rm = FALSE /\ phase = "live"
        /\ last = [op |-> "new", a |-> total, f |-> FALSE, applied |-> TRUE]

(* the clamp-and-trigger block shared by every increment / set path *)
Settle(c, t, tr) == IF tr /\ c >= t THEN [cur |-> t, fire |-> TRUE] ELSE [cur |-> c, fire |-> FALSE]

Fire(ph) == IF ph = "live" THEN "term" ELSE ph

Applies == phase = "live" \/ phase = "term"

Incr(n) ==
  /\ Applies
  /\ LET s == Settle(current + n, total, trig) IN
       /\ current' = s.cur
       /\ phase' = IF s.fire THEN Fire(phase) ELSE phase
  /\ UNCHANGED <<total, refill, trig, aborted, rm>>

SetCurrent(v) ==
  /\ Applies
  /\ IF v < 0 THEN UNCHANGED <<current, phase>>
     ELSE LET s == Settle(v, total, trig) IN
            /\ current' = s.cur
            /\ phase' = IF s.fire THEN Fire(phase) ELSE phase
  /\ UNCHANGED <<total, refill, trig, aborted, rm>>

SetTotal(t, complete) ==
  /\ Applies
  /\ IF trig THEN UNCHANGED <<total, current, trig, phase>>
     ELSE LET nt == IF t < 0 THEN current ELSE t IN
            /\ total' = nt
            /\ IF complete THEN /\ current' = nt /\ trig' = TRUE /\ phase' = Fire(phase)
                           ELSE UNCHANGED <<current, trig, phase>>
  /\ UNCHANGED <<refill, aborted, rm>>

EnableTrigger ==
  /\ Applies
  /\ IF trig THEN UNCHANGED <<current, trig, phase>>
     ELSE IF current >= total THEN /\ current' = total /\ trig' = TRUE /\ phase' = Fire(phase)
     ELSE /\ trig' = TRUE /\ UNCHANGED <<current, phase>>
  /\ UNCHANGED <<total, refill, aborted, rm>>

SetRefill(a) ==
  /\ Applies
  /\ refill' = IF a < current THEN a ELSE current
  /\ UNCHANGED <<total, current, trig, aborted, rm, phase>>

Abort(drop) ==
  /\ Applies
  /\ IF aborted \/ Completed THEN UNCHANGED <<aborted, rm, trig, phase>>
     ELSE /\ aborted' = TRUE /\ rm' = drop /\ trig' = TRUE /\ phase' = Fire(phase)
  /\ UNCHANGED <<total, current, refill>>

(* the goroutine notices the cancellation and publishes its state *)
Exit ==
  /\ phase = "term"
  /\ phase' = "exited"
  /\ aborted' = ~Completed
  /\ UNCHANGED <<total, current, refill, trig, rm>>

(* the container itself is cancelled (Shutdown / context): a live bar ends aborted *)
Cancel ==
  /\ phase = "live"
  /\ phase' = "term"
  /\ UNCHANGED <<total, current, refill, trig, aborted, rm>>

(* a call that arrives after the cancellation may be dropped *)
Dropped == phase \in {"term", "exited"} /\ UNCHANGED view

Call(op, a, f, act) ==
  \/ act /\ last' = [op |-> op, a |-> a, f |-> f, applied |-> TRUE]
  \/ Dropped /\ last' = [op |-> op, a |-> a, f |-> f, applied |-> FALSE]

Next ==
  \/ \E n \in Args : Call("incr", n, FALSE, Incr(n))
  \/ \E v \in Args : Call("setcur", v, FALSE, SetCurrent(v))
  \/ \E t \in Args, c \in BOOLEAN : Call("settotal", t, c, SetTotal(t, c))
  \/ Call("trigger", 0, FALSE, EnableTrigger)
  \/ \E a \in Args : Call("refill", a, FALSE, SetRefill(a))
  \/ \E d \in BOOLEAN : Call("abort", 0, d, Abort(d))
  \/ Exit /\ last' = [op |-> "exit", a |-> 0, f |-> FALSE, applied |-> TRUE]
  \/ Cancel /\ last' = [op |-> "cancel", a |-> 0, f |-> FALSE, applied |-> TRUE]

Spec == Init /\ [][Next]_vars

---------------------------------------------------------------------------
(* C11 *)
Exclusive == ~(Completed /\ Aborted)
ExactlyOneAtExit == phase = "exited" => (Completed # Aborted)

(* a step that does not move the counter backwards *)
NonDecreasing == current' >= current \/ last'.op \notin {"setcur", "incr", "trigger", "settotal"}
CompletedStable == [][(Completed /\ NonDecreasing) => Completed']_vars
AbortedStable   == [][Aborted => (Aborted' /\ ~Completed')]_vars

(* C09 *)
Capped        == trig /\ total >= 0 /\ phase # "live" /\ Completed => current = total
(* (a negative SetCurrent is ignored, so it caps nothing: on a bar of negative total that was aborted - which turns the trigger on -
   the counter stays above the total; found by Apalache, the bounded TLC run identified the states that differ in `last` only) *)
Capping == last.applied /\ (last.op = "incr" \/ (last.op = "setcur" /\ last.a >= 0))
NeverOverTotal == (trig /\ Capping) => current <= total
RefillCapped  == (last.op = "refill" /\ last.applied) => refill <= current
(* the same two as action properties: with VIEW view TLC identifies states that differ in `last` only and evaluates a state
   invariant on the first one it meets; an action property is evaluated on every transition *)
NeverOverTotalA == [][(trig' /\ last'.applied /\ (last'.op = "incr" \/ (last'.op = "setcur" /\ last'.a >= 0))) => current' <= total']_vars
RefillCappedA   == [][(last'.op = "refill" /\ last'.applied) => refill' <= current']_vars
NoCompletionWithoutTrigger ==
  [][(~trig /\ last'.op \in {"incr", "setcur", "refill"}) => (~Completed' /\ phase' = phase)]_vars
AbortNoEffectOnCompleted ==
  [][(Completed /\ last'.op = "abort") => (Completed' /\ ~Aborted')]_vars
(* adopting the counter as the total (SetTotal with a negative total) never changes the counter, and a positive increment
   never lowers it (on a bar that has not been aborted and whose counter is not above its total): under these calls alone,
   from a bar of total 0, Current() is monotone (the stress driver checks exactly this) *)
AdoptKeepsCounter ==
  [][~aborted => /\ ((last'.op = "settotal" /\ last'.a < 0) => current' = current)
                 /\ ((last'.op = "incr" /\ last'.a > 0 /\ (~trig \/ current <= total)) => current' >= current)]_vars
SetTotalIgnoredWhenTriggered ==
  [][(trig /\ last'.op = "settotal") => total' = total]_vars
=============================================================================
