SPECIFICATION Spec
CONSTANTS
  Totals <- MCTotals
  Args <- MCArgs
  Fixed = TRUE
VIEW view
CONSTRAINT Bound
INVARIANTS Exclusive ExactlyOneAtExit NeverOverTotal RefillCapped
PROPERTIES NeverOverTotalA RefillCappedA AdoptKeepsCounter CompletedStable AbortedStable NoCompletionWithoutTrigger AbortNoEffectOnCompleted SetTotalIgnoredWhenTriggered
CHECK_DEADLOCK FALSE
