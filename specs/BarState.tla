----------------------------- MODULE BarState -----------------------------
(* The rules are in BarRules.tla; this module adds what TLC needs to print   *)
(* the complete labelled transition relation for the replay on a real bar.  *)
EXTENDS BarRules, TLC, Json, Sequences


(* every explored transition, for the replay against the real Bar *)
Proj == [total |-> total, current |-> current, refill |-> refill, trig |-> trig, aborted |-> aborted, rm |-> rm,
         phase |-> phase, completed |-> Completed]
ProjN == [total |-> total', current |-> current', refill |-> refill', trig |-> trig', aborted |-> aborted', rm |-> rm',
          phase |-> phase', completed |-> Completed']
EmitEdge == PrintT(<<"EDGE", ToJson([from |-> Proj, lab |-> last', to |-> ProjN])>>)
Bound == current \in -3..8 /\ total \in -3..8
=============================================================================
