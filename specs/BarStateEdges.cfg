SPECIFICATION Spec
CONSTANTS
  Totals <- MCTotals
  Args <- MCArgs
  Fixed = TRUE
VIEW view
CONSTRAINT Bound
ACTION_CONSTRAINT EmitEdge
CHECK_DEADLOCK FALSE
