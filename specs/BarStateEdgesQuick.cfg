SPECIFICATION Spec
CONSTANTS
  Totals <- MCTotalsQ
  Args <- MCArgsQ
  Fixed = TRUE
VIEW view
CONSTRAINT Bound
ACTION_CONSTRAINT EmitEdge
CHECK_DEADLOCK FALSE
