SPECIFICATION Spec
CONSTANTS
  Totals <- MCTotals
  Args <- MCArgs
  Fixed = FALSE
VIEW view
CONSTRAINT Bound
INVARIANTS Exclusive
CHECK_DEADLOCK FALSE
