CONSTANTS MaxOpts = 3
MaxAfter = 2
SPECIFICATION Spec
INVARIANTS NoMessageWhileRunning LastOptionDecides OtherEventUntouched EmitCase
CHECK_DEADLOCK FALSE
