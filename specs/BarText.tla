------------------------------ MODULE BarText ------------------------------
(***************************************************************************)
(* C03, "a completed bar shows its on-complete decorations, an aborted bar *)
(* its on-abort decorations", for the filler side: the options             *)
(* BarFillerOnComplete / BarFillerOnAbort / BarFillerClearOnComplete /     *)
(* BarFillerClearOnAbort / BarFillerMiddleware each wrap the filler the    *)
(* options before them have built (bar_option.go: s.filler =               *)
(* middle(s.filler)), so the option given last decides first.  What the    *)
(* filler prints is a function of the option stack and of the bar's state  *)
(* alone: it is the same in every frame drawn in that state, the first     *)
(* after the event and the last before Wait returns.                       *)
(* A text is a sequence of tokens: "B" the base filler, "C<i>" / "A<i>"    *)
(* the message of the i-th option, "{<i>" .. "}<i>" the brackets a user    *)
(* middleware puts around what it wraps.                                   *)
(***************************************************************************)
EXTENDS Integers, Sequences, TLC, Json

CONSTANTS MaxOpts, MaxAfter

Kinds == {"onC", "onA", "clrC", "clrA", "wrap"}
States == {"run", "C", "A"}
Stacks == UNION {[1..k -> Kinds] : k \in 0..MaxOpts}

RECURSIVE Text(_, _, _)
Text(stack, n, st) ==
  IF n = 0 THEN <<"B">>
  ELSE LET k == stack[n]
           inner == Text(stack, n - 1, st)
       IN CASE k = "onC"  -> IF st = "C" THEN <<"C" \o ToString(n)>> ELSE inner
            [] k = "onA"  -> IF st = "A" THEN <<"A" \o ToString(n)>> ELSE inner
            [] k = "clrC" -> IF st = "C" THEN <<>> ELSE inner
            [] k = "clrA" -> IF st = "A" THEN <<>> ELSE inner
            [] k = "wrap" -> <<"{" \o ToString(n)>> \o inner \o <<"}" \o ToString(n)>>

Shown(stack, st) == Text(stack, Len(stack), st)

(* a case: the option stack, how the bar ends, and how many frames are drawn after that *)
Cases == [stack : Stacks, fin : {"C", "A"}, after : 1..MaxAfter]
Expect(c) == [running |-> Shown(c.stack, "run"), finished |-> Shown(c.stack, c.fin)]

VARIABLE c
Init == c \in Cases
Next == UNCHANGED c
Spec == Init /\ [][Next]_c

(* a running bar is never shown with a message *)
NoMessageWhileRunning == \A i \in 1..Len(Expect(c).running) :
                            LET t == Expect(c).running[i] IN t = "B" \/ \E n \in 1..MaxOpts : t \in {"{" \o ToString(n), "}" \o ToString(n)}
(* the option given last decides: its message is all that is shown of what it wraps *)
LastOptionDecides ==
  Len(c.stack) > 0 =>
    LET k == c.stack[Len(c.stack)] n == Len(c.stack) IN
      /\ (k = "onC" /\ c.fin = "C" => Expect(c).finished = <<"C" \o ToString(n)>>)
      /\ (k = "onA" /\ c.fin = "A" => Expect(c).finished = <<"A" \o ToString(n)>>)
      /\ (k = "clrC" /\ c.fin = "C" => Expect(c).finished = <<>>)
      /\ (k = "clrA" /\ c.fin = "A" => Expect(c).finished = <<>>)
(* options for the other event change nothing *)
OtherEventUntouched ==
  (\A i \in 1..Len(c.stack) : c.stack[i] \in (IF c.fin = "C" THEN {"onA", "clrA"} ELSE {"onC", "clrC"})) => Expect(c).finished = <<"B">>

EmitCase == PrintT(<<"BTXT", ToJson([c |-> c, expect |-> Expect(c)])>>)
=============================================================================
