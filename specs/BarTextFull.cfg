CONSTANTS MaxOpts = 4
MaxAfter = 3
SPECIFICATION Spec
INVARIANTS NoMessageWhileRunning LastOptionDecides OtherEventUntouched EmitCase
CHECK_DEADLOCK FALSE
