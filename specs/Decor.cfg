SPECIFICATION Spec
CONSTANTS
  SampleN <- MCSampleN
  SampleDur = {0, 1, 5}
  MaxSamples = 4
INVARIANTS Conservation NoDivisionByZero LargestUnitThatFits SplitOK EmitCase
CHECK_DEADLOCK FALSE
