SPECIFICATION Spec
CONSTANTS
  SampleN <- MCSampleN
  SampleDur = {0, 1, 5}
  MaxSamples = 4
  MedianVals = {1, 2, 3, 5}
  MaxMedianOps = 7
INVARIANTS IsAnAverage MedianOfLastThree Conservation NoDivisionByZero LargestUnitThatFits SplitOK EmitCase
CHECK_DEADLOCK FALSE
