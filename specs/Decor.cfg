SPECIFICATION Spec
CONSTANTS
  SampleN <- MCSampleN
  SampleDur = {0, 1, 5}
  MaxSamples = 4
  MedianVals = {1, 2, 3, 5}
  MaxMedianOps = 7
  NormRem = {0, 59, 60, 90, 200}
  NormDt = {0, 5, 50}
  NormPars = {0, 1, 2, 30}
  MaxNormCalls = 4
INVARIANTS NormShown NormCountsDown NormFresh NormTolerant IsAnAverage MedianOfLastThree Conservation NoDivisionByZero LargestUnitThatFits SplitOK EmitCase
CHECK_DEADLOCK FALSE
