------------------------------- MODULE Decor -------------------------------
(***************************************************************************)
(* C20: what the size, percentage, time and rate decorators must print,    *)
(* as reference machines.                                                  *)
(*  "ewma": the sample accumulator of the moving-average decorators: a     *)
(*          sample without progress (n <= 0) is carried into the next one; *)
(*          conservation of time is an invariant.                          *)
(*  "size": unit selection for a byte count written m*B^e + d.             *)
(*  "time": the h/m/s split of a duration below 60 hours.                  *)
(*  "pct" : the percentage as an exact fraction.                           *)
(*  "avg":  the exponentially weighted average behind EwmaETA / EwmaSpeed  *)
(*          with the default age (a first sample sets it, every later one  *)
(*          moves it by 2/31 of the difference), as an exact fraction; it  *)
(*          is an average: it lies between the smallest and the largest    *)
(*          sample.                                                        *)
(*  "median": the default moving average of the ETA decorator: a window of  *)
(*          the last three samples; reading it does not change it.         *)
(*  "norm": the two time normalizers an ETA decorator may be given        *)
(*          (decor/eta.go): between two looks at the raw estimate they     *)
(*          count the last one they showed down by the clock; below one    *)
(*          minute they are out of the way.                                *)
(* TLC checks the invariants and prints one case per terminal state; the   *)
(* driver formats the same value with the real decorators / formatter      *)
(* types and compares (numbers parsed back, exact rational arithmetic).    *)
(* TLC integers are 32-bit, so sizes are kept symbolic (B, e, m, d).       *)
(***************************************************************************)
EXTENDS Integers, Sequences, FiniteSets, TLC, Json, Norm

CONSTANTS SampleN, SampleDur, MaxSamples, MedianVals, MaxMedianOps,
          NormRem, NormDt, NormPars, MaxNormCalls    \* raw estimates (s), time between calls (s), parameters, calls per case

Seqs(S, n) == UNION {[1..k -> S] : k \in 0..n}

VARIABLES kind, c, i, zDur, adds, received, accounted, win, outs, nz
vars == <<kind, c, i, zDur, adds, received, accounted, win, outs, nz>>

EwmaCases == [samples : Seqs([n : SampleN, dur : SampleDur], MaxSamples) \ {<<>>}]
SizeCases == [base : {1000, 1024}, e : 0..5, m : {1, 2, 999}, d : {-1, 0, 1}]
             \cup [base : {1000, 1024}, e : {9}, m : {1}, d : {-1000, -1, 0}]    \* e = 9 stands for the top of the range: MaxInt64 + d
TimeCases == [h : {0, 1, 23, 59}, m : {0, 1, 59}, s : {0, 1, 59}, ms : {0, 999}]
PctCases  == [total : {1, 3, 7, 100, 120}, cur : 0..8]
(* an operation on the window: 0 reads it (a frame is drawn), v > 0 adds the sample v *)
AvgCases == [durs : Seqs({1, 3, 5}, 4) \ {<<>>}]      \* seconds per item, one item per sample
MedianCases == [ops : Seqs(MedianVals \cup {0}, MaxMedianOps) \ {<<>>}]
(* a normalizer ("fixed": FixedIntervalTimeNormalizer(par), "tol": MaxTolerateTimeNormalizer(par s)) and the calls it gets:
   the raw estimate and the time that has passed since the call before *)
NormCases == [which : {"fixed", "tol"}, par : NormPars, calls : Seqs([rem : NormRem, dt : NormDt], MaxNormCalls) \ {<<>>}]

NormInit == [count |-> 0, val |-> 0, base |-> 0, since |-> 0, run |-> 0, resets |-> <<>>]
Init == /\ kind \in {"ewma", "size", "time", "pct", "median", "avg", "norm"}
        /\ nz = NormInit
        /\ c \in (CASE kind = "ewma" -> EwmaCases [] kind = "size" -> SizeCases [] kind = "time" -> TimeCases
                     [] kind = "median" -> MedianCases [] kind = "avg" -> AvgCases [] kind = "norm" -> NormCases [] OTHER -> PctCases)
        /\ i = 1 /\ zDur = 0 /\ adds = <<>> /\ received = 0 /\ accounted = 0
        /\ win = <<0, 0, 0>> /\ outs = <<>>

(* decor/eta.go:89-102 and decor/speed.go:96-109: one EwmaUpdate(n, dur) *)
Update ==
  /\ kind = "ewma" /\ i <= Len(c.samples)
  /\ LET s == c.samples[i] IN
       /\ received' = received + s.dur
       /\ IF s.n <= 0
          THEN /\ zDur' = zDur + s.dur /\ UNCHANGED <<adds, accounted>>
          ELSE \* the value handed to the moving average is (zDur + dur) / n : kept as a fraction
               /\ adds' = Append(adds, [num |-> zDur + s.dur, den |-> s.n])
               /\ accounted' = accounted + zDur + s.dur
               /\ zDur' = 0
  /\ i' = i + 1 /\ UNCHANGED <<kind, c, win, outs, nz>>

(* decor/moving_average.go: the window of the last three samples, oldest first *)
Median3(w) == CHOOSE x \in {w[1], w[2], w[3]} :
                 /\ Cardinality({k \in 1..3 : w[k] <= x}) >= 2
                 /\ Cardinality({k \in 1..3 : w[k] >= x}) >= 2
MedianOp ==
  /\ kind = "median" /\ i <= Len(c.ops)
  /\ IF c.ops[i] = 0
     THEN outs' = Append(outs, Median3(win)) /\ UNCHANGED win
     ELSE win' = <<win[2], win[3], c.ops[i]>> /\ UNCHANGED outs
  /\ i' = i + 1 /\ UNCHANGED <<kind, c, zDur, adds, received, accounted, nz>>

(* decor/eta.go, FixedIntervalTimeNormalizer and MaxTolerateTimeNormalizer: one Normalize(rem) call, dt after the call before
   (Norm.tla; NormInd.tla has the same operators for every integer, by Apalache).
   count / val are the closures' variables; base, since, run and resets are history (the raw value last shown, the time
   since then, the calls since then, and which calls showed the raw value) *)
NormCall ==
  /\ kind = "norm" /\ i <= Len(c.calls)
  /\ LET rem  == c.calls[i].rem
         dt   == c.calls[i].dt
         look == NormLook(c.which, c.par, nz.count, nz.val, rem)      \* the operators of Norm.tla
     IN /\ outs' = Append(outs, NormOut(c.which, c.par, nz.count, nz.val, rem, dt))
        /\ nz' = [count |-> NormCount(c.which, c.par, nz.count, nz.val, rem), val |-> NormVal(c.which, c.par, nz.count, nz.val, rem, dt),
                  base |-> IF look THEN rem ELSE nz.base, since |-> IF look THEN 0 ELSE nz.since + dt,
                  run |-> IF look THEN 0 ELSE nz.run + 1, resets |-> Append(nz.resets, look)]
  /\ i' = i + 1 /\ UNCHANGED <<kind, c, zDur, adds, received, accounted, win>>

(* github.com/VividCortex/ewma SimpleEWMA (what the decorators use for age 0, "the default"): value * 31^(k-1) after
   k samples, so that the arithmetic stays in the integers *)
RECURSIVE Pow31(_)
Pow31(k) == IF k = 0 THEN 1 ELSE 31 * Pow31(k - 1)
RECURSIVE AvgNum(_, _)
AvgNum(d, k) == IF k = 1 THEN d[1] ELSE 2 * d[k] * Pow31(k - 2) + 29 * AvgNum(d, k - 1)
AvgDen(k) == Pow31(k - 1)
MinOf(d) == CHOOSE x \in {d[j] : j \in DOMAIN d} : \A y \in {d[j] : j \in DOMAIN d} : x <= y
MaxOfD(d) == CHOOSE x \in {d[j] : j \in DOMAIN d} : \A y \in {d[j] : j \in DOMAIN d} : x >= y
IsAnAverage == kind = "avg" =>
  \A k \in 1..Len(c.durs) : LET p == SubSeq(c.durs, 1, k) IN
     /\ AvgNum(c.durs, k) >= MinOf(p) * AvgDen(k)
     /\ AvgNum(c.durs, k) <= MaxOfD(p) * AvgDen(k)

Done == CASE kind = "ewma" -> i = Len(c.samples) + 1 [] kind = "median" -> i = Len(c.ops) + 1
          [] kind = "norm" -> i = Len(c.calls) + 1 [] OTHER -> TRUE
Next == Update \/ MedianOp \/ NormCall \/ (Done /\ UNCHANGED vars)
Spec == Init /\ [][Next]_vars

(* no time is lost and none is invented *)
Conservation == kind = "ewma" => received = accounted + zDur
NoDivisionByZero == kind = "ewma" => \A k \in DOMAIN adds : adds[k].den > 0

(* every reading is the median of the last three samples added before it (zeros before the first ones),
   whatever was read in between *)
AddedBefore(k) == SelectSeq(SubSeq(c.ops, 1, k - 1), LAMBDA v : v # 0)
LastThree(q) == LET p == <<0, 0, 0>> \o q IN SubSeq(p, Len(p) - 2, Len(p))
ReadPos == IF kind = "median" THEN {k \in 1..(i - 1) : c.ops[k] = 0} ELSE {}
MedianOfLastThree ==
  kind = "median" =>
    \A k \in ReadPos : outs[Cardinality({j \in ReadPos : j <= k})] = Median3(LastThree(AddedBefore(k)))

(* the normalizers: what is shown is the raw estimate, or the raw estimate shown at the last look counted down by the time
   that has passed since (and still positive); under a minute it is the raw estimate; the fixed-interval flavour looks at
   the raw estimate at least every par + 1 calls; the tolerant flavour never shows more than the raw estimate + par *)
NormShown == kind = "norm" =>
  \A k \in 1..Len(outs) :
     /\ (c.calls[k].rem < 60 => outs[k] = c.calls[k].rem)
     /\ (nz.resets[k] => outs[k] = c.calls[k].rem)
     /\ (c.calls[k].rem >= 0 => outs[k] >= 0) /\ (c.calls[k].rem > 0 => outs[k] > 0)
NormCountsDown == (kind = "norm" /\ Len(outs) > 0 /\ ~nz.resets[Len(outs)]) =>
                     outs[Len(outs)] \in {c.calls[Len(outs)].rem, nz.base - nz.since}
NormFresh == (kind = "norm" /\ c.which = "fixed") => nz.run <= c.par
NormTolerant == (kind = "norm" /\ c.which = "tol") => \A k \in 1..Len(outs) : outs[k] - c.calls[k].rem <= c.par

(* size: which unit (0 = b, 1 = K, ... 4 = T) and what the mantissa is in that unit *)
SizeUnit(x) == LET raw == IF x.e = 0 /\ x.m + x.d >= x.base THEN 1     \* 999 + 1 bytes are one K
                          ELSE IF x.d = -1 /\ x.m = 1 THEN x.e - 1   \* one below a power of the base
                          ELSE x.e
               IN IF raw < 0 THEN 0 ELSE IF raw > 4 THEN 4 ELSE raw
SizeInDomain(x) == ~(x.e = 0 /\ x.m = 1 /\ x.d = -1)      \* 0 <= value
LargestUnitThatFits == kind = "size" /\ SizeInDomain(c) =>
                          /\ SizeUnit(c) \in 0..4
                          /\ (SizeUnit(c) < c.e => (c.e > 4 \/ (c.m = 1 /\ c.d = -1)))
                          /\ (SizeUnit(c) > c.e => (c.e = 0 /\ c.m + c.d >= c.base))

(* the counters family (decor/counters.go): which quantity each member prints for a bar at (cur, tot); every member
   prints it through the size formatter above (or as a plain integer for the NoUnit members), Counters prints the
   pair <<current, total>>.  The driver computes the quantity from this table for the case's byte count as total and
   a third of it as current. *)
Quantity(member, cur, tot) == CASE member = "current"  -> cur
                                [] member = "total"    -> tot
                                [] member = "inverted" -> tot - cur
ASSUME \A tot \in 0..6 : \A cur \in 0..tot :
         /\ Quantity("current", cur, tot) + Quantity("inverted", cur, tot) = Quantity("total", cur, tot)
         /\ Quantity("inverted", cur, tot) \in 0..tot

(* time: the three fields of a duration of h hours, m minutes, s seconds (+ms, which is dropped) *)
Secs(x) == x.h * 3600 + x.m * 60 + x.s
SplitOK == kind = "time" => /\ (Secs(c) \div 3600) % 60 = c.h
                            /\ (Secs(c) \div 60) % 60 = c.m
                            /\ Secs(c) % 60 = c.s

EmitCase == Done => PrintT(<<"DECOR", ToJson([kind |-> kind, c |-> c, adds |-> adds, zDur |-> zDur, outs |-> outs,
                                              avg |-> IF kind = "avg" THEN [k \in 1..Len(c.durs) |-> [num |-> AvgNum(c.durs, k), den |-> AvgDen(k)]] ELSE <<>>,
                                              unit |-> IF kind = "size" THEN SizeUnit(c) ELSE 0,
                                              indomain |-> IF kind = "size" THEN SizeInDomain(c) ELSE TRUE])>>)
=============================================================================
