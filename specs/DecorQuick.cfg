SPECIFICATION Spec
CONSTANTS
  SampleN <- MCSampleN
  SampleDur = {0, 1, 5}
  MaxSamples = 3
  MedianVals = {1, 2, 3, 5}
  MaxMedianOps = 6
INVARIANTS IsAnAverage MedianOfLastThree Conservation NoDivisionByZero LargestUnitThatFits SplitOK EmitCase
CHECK_DEADLOCK FALSE
