SPECIFICATION Spec
CONSTANTS
  SampleN <- MCSampleN
  SampleDur = {0, 1, 5}
  MaxSamples = 3
  MedianVals = {1, 2, 3, 5}
  MaxMedianOps = 6
  NormRem = {0, 59, 60, 90, 200}
  NormDt = {0, 5, 50}
  NormPars = {0, 1, 30}
  MaxNormCalls = 3
INVARIANTS NormShown NormCountsDown NormFresh NormTolerant IsAnAverage MedianOfLastThree Conservation NoDivisionByZero LargestUnitThatFits SplitOK EmitCase
CHECK_DEADLOCK FALSE
