SPECIFICATION Spec
CONSTANTS
  MaxW = 6
  MaxT = 4
  CompW = {0, 1, 2}
  BoundW = {0, 1, 2}
  Guarded = TRUE
INVARIANTS NeverTooWide ExactBody NothingWhenNoRoom Proportional RefillWithin ZeroAndFull SpinnerFits
PROPERTIES Terminates
CHECK_DEADLOCK FALSE
