------------------------------- MODULE Fill -------------------------------
(***************************************************************************)
(* One row of a bar: the bar filler's Fill (bar_filler_bar.go) as a step   *)
(* machine over abstract component *widths*, and the arithmetic of the     *)
(* filled part (internal/percentage.go).  Properties C07 (termination,     *)
(* exact width of the body) and C08 (proportional, monotone, refill within *)
(* the filled part).  One step per loop iteration, so that a loop that     *)
(* cannot advance is a behaviour that never reaches "done".                *)
(*                                                                         *)
(* Guarded = TRUE is the repaired code: a component of display width 0 is  *)
(* never repeated, and a tip that does not fit the body is left out.       *)
(* Guarded = FALSE is the code as found; TLC then exhibits the             *)
(* non-terminating loop and the overflowing tip (cfg FillOrig).            *)
(***************************************************************************)
EXTENDS Integers, TLC, Json

CONSTANTS MaxW,      \* available widths 0..MaxW
          MaxT,      \* totals -1..MaxT, currents / refills -1..MaxT+1
          CompW,     \* display widths a component may have, e.g. {0,1,2}
          BoundW,    \* display widths of the two brackets
          Guarded

VARIABLES p,         \* the parameters of this call (chosen in Init)
          pc, width, curW, refW, fill, nFiller, nRefiller, nPad, nEll, tipUsed, lb, rb

vars == <<p, pc, width, curW, refW, fill, nFiller, nRefiller, nPad, nEll, tipUsed, lb, rb>>

(* internal.PercentageRound: math.Round of width*current/total with its guards *)
Round2(num, den) == (2 * num + den) \div (2 * den)      \* round half away from zero, num, den >= 0, den > 0
PR(total, current, w) ==
  IF total < 0 \/ current < 0 THEN 0
  ELSE IF total = 0 THEN 0
  ELSE IF current >= total THEN w
  ELSE Round2(w * current, total)

CheckReq(req, avail) == IF req < 1 \/ req > avail THEN avail ELSE req

Params == [avail : 0..MaxW, req : {0, 3}, lbw : BoundW, rbw : BoundW, fw : CompW, rw : CompW, pw : CompW, tw : CompW,
           total : -1..MaxT, current : -1..(MaxT + 1), refill : {0, 1, MaxT}, completed : BOOLEAN, tipOnComplete : BOOLEAN]

Init == /\ p \in Params
        /\ pc = "start" /\ width = 0 /\ curW = 0 /\ refW = 0 /\ fill = 0
        /\ nFiller = 0 /\ nRefiller = 0 /\ nPad = 0 /\ nEll = 0 /\ tipUsed = FALSE /\ lb = FALSE /\ rb = FALSE

Start ==
  /\ pc = "start"
  /\ LET w == CheckReq(p.req, p.avail) - (p.lbw + p.rbw) IN
       /\ width' = w
       /\ IF w < 0 THEN pc' = "done" /\ UNCHANGED <<lb, rb, curW, refW, fill, tipUsed>>
          ELSE IF w = 0 THEN pc' = "done" /\ lb' = TRUE /\ rb' = TRUE /\ UNCHANGED <<curW, refW, fill, tipUsed>>
          ELSE LET cw == PR(p.total, p.current, w)
                   useTip == cw # 0 /\ (~p.completed \/ p.tipOnComplete) /\ (Guarded => p.tw <= w)
                   rw0 == IF cw # 0 /\ p.refill # 0 THEN PR(p.total, p.refill, w) ELSE 0
               IN /\ lb' = TRUE /\ rb' = FALSE
                  /\ tipUsed' = useTip
                  /\ fill' = IF useTip THEN p.tw ELSE 0
                  \* case stat.Refill != 0: curWidth -= refWidth; refWidth += curWidth
                  /\ curW' = IF cw # 0 /\ p.refill # 0 THEN cw - rw0 ELSE cw
                  /\ refW' = IF cw # 0 /\ p.refill # 0 THEN rw0 + (cw - rw0) ELSE 0
                  /\ pc' = IF cw # 0 THEN "filler" ELSE "padding"
  /\ UNCHANGED <<p, nFiller, nRefiller, nPad, nEll>>

Loop(name, w, limit, cnt, next) ==
  /\ pc = name
  /\ IF (Guarded => w > 0) /\ limit - fill >= w
     THEN /\ fill' = fill + w /\ cnt' = cnt + 1 /\ pc' = name
     ELSE /\ pc' = next /\ UNCHANGED <<fill, cnt>>

Filler   == Loop("filler", p.fw, curW, nFiller, "refiller") /\ UNCHANGED <<p, width, curW, refW, nRefiller, nPad, nEll, tipUsed, lb, rb>>
Refiller == Loop("refiller", p.rw, refW, nRefiller, "padding") /\ UNCHANGED <<p, width, curW, refW, nFiller, nPad, nEll, tipUsed, lb, rb>>
Padding  == Loop("padding", p.pw, width, nPad, "ellipsis") /\ UNCHANGED <<p, width, curW, refW, nFiller, nRefiller, nEll, tipUsed, lb, rb>>
Ellipsis == Loop("ellipsis", 1, width, nEll, "flush") /\ UNCHANGED <<p, width, curW, refW, nFiller, nRefiller, nPad, tipUsed, lb, rb>>
Flush    == pc = "flush" /\ pc' = "done" /\ rb' = TRUE
            /\ UNCHANGED <<p, width, curW, refW, fill, nFiller, nRefiller, nPad, nEll, tipUsed, lb>>

Next == Start \/ Filler \/ Refiller \/ Padding \/ Ellipsis \/ Flush
Spec == Init /\ [][Next]_vars /\ WF_vars(Next)

---------------------------------------------------------------------------
Body  == nFiller * p.fw + nRefiller * p.rw + nPad * p.pw + nEll + (IF tipUsed THEN p.tw ELSE 0)
Out   == (IF lb THEN p.lbw ELSE 0) + Body + (IF rb THEN p.rbw ELSE 0)
Allot == CheckReq(p.req, p.avail)

(* C07 *)
Terminates   == <>(pc = "done")
NeverTooWide == pc = "done" => Out <= p.avail
ExactBody    == (pc = "done" /\ width > 0) => Body = width
NothingWhenNoRoom == (pc = "done" /\ width < 0) => Out = 0

(* C08: the filled part (filler + refiller + tip) is the rounded share, to within one rune *)
Filled == nFiller * p.fw + nRefiller * p.rw + (IF tipUsed THEN p.tw ELSE 0)
Share  == PR(p.total, p.current, width)
Proportional ==
  (pc = "done" /\ width > 0 /\ p.fw > 0 /\ p.rw > 0) =>
      /\ (Share = 0 => Filled = 0)
      /\ (Share > 0 /\ (~tipUsed \/ p.tw <= Share) => (Filled <= Share /\ Filled > Share - (IF p.fw > p.rw THEN p.fw ELSE p.rw)))
RefillWithin == (pc = "done" /\ width > 0) => nRefiller * p.rw <= Share
ZeroAndFull ==
  (pc = "done" /\ width > 0) =>
      /\ ((p.current <= 0 \/ p.total <= 0) => Share = 0)
      /\ ((p.total > 0 /\ p.current >= p.total) => Share = width)

(* C08 monotonicity of the arithmetic itself, over the whole grid *)
Monotone == \A t \in -1..MaxT, w \in 0..MaxW, c1 \in -1..(MaxT + 1), c2 \in -1..(MaxT + 1) :
              (0 <= c1 /\ c1 <= c2) => PR(t, c1, w) <= PR(t, c2, w)
Bounded  == \A t \in -1..MaxT, w \in 0..MaxW, c \in -1..(MaxT + 1) : PR(t, c, w) >= 0 /\ PR(t, c, w) <= w

(* The machine above is a function of the parameter vector p alone: a bar filler with a single tip frame keeps no
   state from one frame to the next.  The driver checks this history-independence on the real filler: the same
   statistics drawn after a full frame with a refill mark, and after the same counters under another total, give the
   bytes a fresh filler gives. *)

(* the spinner filler (bar_filler_spinner.go) with a frame as wide as the tip: the frame is
   positioned within the allotted width, or nothing is drawn when it does not fit *)
SpinnerOut == IF Allot < p.tw THEN 0 ELSE Allot
(* a spinner whose frames differ in width (the widths of the row's tip, padding and refill strings): the k-th
   call draws frame k, and each frame is measured on its own *)
SpinFrames  == <<p.tw, p.pw, p.rw>>
SpinnerSeq  == [k \in 1..4 |-> LET fw == SpinFrames[((k - 1) % 3) + 1] IN IF Allot < fw THEN 0 ELSE Allot]
SpinnerFits == \A k \in 1..4 : SpinnerSeq[k] <= p.avail \/ p.avail < 0

(* the table replayed on the real filler: one line per terminated call *)
EmitRow == pc = "done" =>
  PrintT(<<"ROW", ToJson([p |-> p, nFiller |-> nFiller, nRefiller |-> nRefiller, nPad |-> nPad, nEll |-> nEll,
                          tip |-> tipUsed, lb |-> lb, rb |-> rb, out |-> Out, width |-> width, share |-> Share,
                          spin |-> SpinnerOut, spinseq |-> SpinnerSeq])>>)
=============================================================================
