SPECIFICATION Spec
CONSTANTS
  MaxW = 1
  MaxT = 0
  CompW = {1}
  BoundW = {1}
  Guarded = TRUE
  ArW = 40
  ArT = 40
CHECK_DEADLOCK FALSE
