----------------------------- MODULE FillArith -----------------------------
(* C08: the arithmetic of the filled share over a whole grid, evaluated once by TLC,     *)
(* and the table of its values that is replayed (at several scales) on the real filler.  *)
EXTENDS Fill
CONSTANTS ArW, ArT

Abs(x) == IF x < 0 THEN -x ELSE x

ASSUME Mono == \A t \in -1..ArT, w \in 0..ArW, c1 \in -1..(ArT + 1), c2 \in -1..(ArT + 1) :
                  (0 <= c1 /\ c1 <= c2) => PR(t, c1, w) <= PR(t, c2, w)
ASSUME InRange == \A t \in -1..ArT, w \in 0..ArW, c \in -1..(ArT + 1) : PR(t, c, w) >= 0 /\ PR(t, c, w) <= w
(* nearest cell: |share - w*c/t| <= 1/2 *)
ASSUME Nearest == \A t \in 1..ArT, w \in 0..ArW : \A c \in 0..t : Abs(2 * PR(t, c, w) * t - 2 * w * c) <= t
ASSUME Ends == \A t \in -1..ArT, w \in 0..ArW :
                  /\ PR(t, 0, w) = 0
                  /\ (t <= 0 => \A c \in -1..(ArT + 1) : PR(t, c, w) = 0)
                  /\ (t > 0 => \A c \in t..(ArT + 1) : PR(t, c, w) = w)
ASSUME Table == \A t \in 1..ArT, w \in 0..ArW : PrintT(<<"AR", ToJson([t |-> t, w |-> w, v |-> [c \in 1..(t + 2) |-> PR(t, c - 1, w)]])>>)
=============================================================================
