SPECIFICATION Spec
CONSTANTS
  MaxW = 1
  MaxT = 0
  CompW = {1}
  BoundW = {1}
  Guarded = TRUE
  ArW = 24
  ArT = 20
CHECK_DEADLOCK FALSE
