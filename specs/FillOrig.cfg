SPECIFICATION Spec
CONSTANTS
  MaxW = 3
  MaxT = 2
  CompW = {0, 1, 2}
  BoundW = {1}
  Guarded = FALSE
INVARIANTS NeverTooWide
PROPERTIES Terminates
CHECK_DEADLOCK FALSE
