SPECIFICATION Spec
CONSTANTS
  MaxW = 4
  MaxT = 2
  CompW = {0, 1, 2}
  BoundW = {1}
  Guarded = TRUE
INVARIANTS NeverTooWide ExactBody NothingWhenNoRoom Proportional RefillWithin ZeroAndFull SpinnerFits EmitRow
PROPERTIES Terminates
CHECK_DEADLOCK FALSE
