SPECIFICATION Spec
CONSTANTS
  MaxW = 6
  MaxT = 3
  CompW = {0, 1, 2}
  BoundW = {0, 1, 2}
  Guarded = TRUE
INVARIANTS EmitRow
CHECK_DEADLOCK FALSE
