------------------------------ MODULE MC_core ------------------------------
EXTENDS MPBCore
Add(t, sy, rm, np, af) == [op |-> "add", b |-> 0, n |-> 0, drop |-> FALSE, total |-> t, rm |-> rm, nopop |-> np, sync |-> sy, after |-> af]
Incr(b, n)  == [op |-> "incr", b |-> b, n |-> n, drop |-> FALSE, total |-> 0, rm |-> FALSE, nopop |-> FALSE, sync |-> FALSE, after |-> 0]
Abort(b, d) == [op |-> "abort", b |-> b, n |-> 0, drop |-> d, total |-> 0, rm |-> FALSE, nopop |-> FALSE, sync |-> FALSE, after |-> 0]
Call(o)     == [op |-> o, b |-> 0, n |-> 0, drop |-> FALSE, total |-> 0, rm |-> FALSE, nopop |-> FALSE, sync |-> FALSE, after |-> 0]

(* two synchronised bars, one client *)
P_sync2 == <<  <<Add(1, TRUE, FALSE, FALSE, 0), Add(1, TRUE, FALSE, FALSE, 0), Incr(1, 1), Incr(2, 1), Call("wait")>>  >>
(* one bar, text, two clients *)
P_write == <<  <<Add(1, FALSE, FALSE, FALSE, 0), Incr(1, 1), Call("wait")>>, <<Call("write")>>  >>
(* a removed bar and a plain one *)
P_rm    == <<  <<Add(1, FALSE, TRUE, FALSE, 0), Add(1, FALSE, FALSE, FALSE, 0), Incr(1, 1), Abort(2, FALSE), Call("wait")>>  >>
(* queue-after *)
P_queue == <<  <<Add(1, FALSE, FALSE, FALSE, 0), Add(1, FALSE, FALSE, FALSE, 1), Incr(1, 1), Incr(2, 1), Call("wait")>>  >>
=============================================================================
