------------------------------ MODULE MPBCore ------------------------------
(***************************************************************************)
(* Implementation-level specification of an mpb container: its goroutines  *)
(* and channels, at the grain of the racing channel operations.            *)
(*                                                                         *)
(* The code is instrumented (build tag verif) with a gate before every     *)
(* channel operation whose order relative to another goroutine is not      *)
(* already determined.  A harness scheduler releases one parked goroutine  *)
(* at a time and waits for quiescence.  This specification has the same    *)
(* shape: ONE TRANSITION = ONE SCHEDULER STEP.  A step releases one gate   *)
(* (or lets one refresh period pass) and then runs every goroutine that    *)
(* can move until all of them are parked at a gate or blocked (operator    *)
(* Quiesce).  Steps that the Go runtime performs without any choice are    *)
(* taken eagerly; where a select has several ready cases the closure       *)
(* branches, because no scheduler controls that choice.                    *)
(*                                                                         *)
(* Gate names are those of the hooks (heap_manager.go, progress.go,        *)
(* bar.go, decor/decorator.go): cl:<c> ct:push ct:hm:<cmd> ct:cancelbar    *)
(* ct:flush ct:io hm:req hm:iter hm:pop rg:start fmt:send dist:start       *)
(* dist:mid bar:exit er:start er:pump dp:send ls:tick ls:done pw:cancel.   *)
(*                                                                         *)
(* Scope of this version: auto-refresh container; Add (with total, one     *)
(* width-synchronised decorator or none, remove-on-complete, no-pop,       *)
(* queue-after), Incr, Abort, Write, Wait, Shutdown; pop-completed mode;   *)
(* heap manager queue of length Q with detached pushes when it is full;    *)
(* early refresh; final render loop; shutdown notifier omitted.            *)
(***************************************************************************)
EXTENDS Integers, Sequences, FiniteSets, TLC

CONSTANTS NB,        \* bars are 1..NB (bar b is created by the b-th Add in program order)
          Q,         \* heap manager queue length (WithQueueLen)
          Pop,       \* PopCompletedMode
          Prog,      \* Prog[c] = sequence of calls of client c
          MaxTicks,  \* refresh periods the scheduler may let pass (bounds the graph)
          Fault,     \* [kind, b, at]: the at-th Fill ("fill") or extender call ("ext") of bar b, or the at-th Write on
                     \* the output ("out"), returns an error (at = 0: never)
          Refresh,   \* "auto" | "manual" | "none"
          UWG        \* WithWaitGroup: every client but the first is a worker of a user wait group and calls Done
                     \* once - before it waits for the container itself, or when its program ends

Bars    == 1..NB
Clients == DOMAIN Prog
NoBar   == 0

(* ------------------------------------------------------------------ state *)
VARIABLES s,      \* the whole system, as one record (see Init)
          last    \* label of the step that led here (for schedules / trace validation)
vars == <<s, last>>
view == s      \* the label of the last step is output only

Req(cmd, b, sy, e) == [cmd |-> cmd, b |-> b, sync |-> sy, e |-> e, v |-> 0]
NoReq == Req("none", NoBar, FALSE, 0)

BarInit == [exists |-> FALSE, total |-> 0, cur |-> 0, trig |-> FALSE, aborted |-> FALSE, rm |-> FALSE, nopop |-> FALSE,
            sd |-> <<>>, ln |-> <<>>, rdk |-> 0, after |-> NoBar, shutdown |-> 0, ctx |-> FALSE, pc |-> "none", prio |-> 0,
            rg |-> "none", rd |-> "none", host |-> "none",
            frame |-> [has |-> FALSE, sd |-> 0, rm |-> FALSE, nopop |-> FALSE, err |-> FALSE],
            index |-> 0, fills |-> 0, pushed |-> FALSE]

CtInit == [pc |-> "idle", b |-> NoBar, cmd |-> "none", sync |-> FALSE, then |-> "none", c |-> 0, e |-> 0,
           final |-> FALSE, rows |-> <<>>, prios |-> <<>>, popm |-> <<>>, exempt |-> FALSE, popc |-> 0,
           iterClosed |-> FALSE, popClosed |-> FALSE,
           v |-> 0, lazy |-> FALSE]                         \* arguments of a pending priority change      \* close(iter) / close(iterPop) seen by the next receive

Init0 ==
  [cl    |-> [c \in Clients |-> [pc |-> 1, st |-> IF Len(Prog[c]) = 0 THEN "done" ELSE "gate", k |-> 0,
                               wd |-> (Len(Prog[c]) = 0)]],      \* wd: the worker has called Done
   uwg   |-> IF UWG THEN Cardinality({c \in Clients : c # 1 /\ Len(Prog[c]) > 0}) ELSE 0,
   ct    |-> CtInit,
   hm    |-> [pc |-> "idle", req |-> NoReq, i |-> 0, order |-> <<>>, e |-> 0],
   hmbuf |-> <<>>,             \* requests in the channel buffer
   hmblk |-> <<>>,             \* blocked senders, FIFO: [req, from]   from = 0 (container) or k (k-th detached push)
   hmclosed |-> FALSE,
   heap  |-> <<>>, hlen |-> 0, hsync |-> FALSE, matrix |-> <<>>,     \* columns: [side, col, members : seq of [b, k]]
   bar   |-> [b \in Bars |-> BarInit],
   nbars |-> 0,                \* bars created so far
   added |-> {},               \* Add calls that have returned (bar index = position of the Add in program order)
   queue |-> [b \in Bars |-> NoBar],   \* queueBars: predecessor -> successor
   popPrio |-> -100,
   dist  |-> <<>>,             \* width distributors: [members, i, pc]
   er    |-> <<>>,             \* early refresh goroutines: [b, pc, drop]
   dp    |-> <<>>,             \* detached pushes: [req, pc]
   ls    |-> IF Refresh = "none" THEN "gone" ELSE "idle",
   mreq  |-> 0,                \* manual refresh requests sent and not yet taken by the listener
   lsPend |-> FALSE,           \* the ticker's one-slot channel holds a tick the listener has not taken yet
   pctx  |-> FALSE, done |-> FALSE,
   iterDrop |-> FALSE,         \* closed by the container on a render error
   lazyDirty |-> FALSE,        \* a lazy priority change has been applied since the last ordered iteration began
   err   |-> FALSE, drain |-> "none", debug |-> 0,
   nwrites |-> 0, cuuPend |-> FALSE,   \* Writes on the output so far (saturating); a cursor-up sequence waits in the buffer
   cw    |-> 0,                \* text lines accepted and not yet written
   out   |-> [rows |-> <<>>, prios |-> <<>>, popm |-> <<>>, exempt |-> FALSE, text |-> 0, pop |-> 0],   \* last frame written (observation)
   written |-> 0,              \* text lines written so far
   accepted |-> 0,
   bwg   |-> 0, ctgone |-> FALSE,
   lsn   |-> {},               \* OnShutdown goroutines that have been started and have not returned: <<bar, decorator>>
   ticks |-> 0,
   panic |-> "none"]

Init == s = Init0 /\ last = "init"

(* ---------------------------------------------------------------- helpers *)
Completed(b) == b.trig /\ ~b.aborted /\ b.cur = b.total
Terminal(b)  == b.aborted \/ Completed(b)

Op(c, st) == Prog[c][st.cl[c].pc]

Swap(h, i, j) == [h EXCEPT ![i] = h[j], ![j] = h[i]]
(* container/heap on a 1-based sequence of bars; Less(x, y) == prio[x] > prio[y] *)
Less(st, x, y) == st.bar[x].prio > st.bar[y].prio
RECURSIVE Up(_, _, _)
Up(st, h, j) == IF j = 1 THEN h
                ELSE LET i == j \div 2 IN
                     IF ~Less(st, h[j], h[i]) THEN h ELSE Up(st, Swap(h, i, j), i)
RECURSIVE Down(_, _, _, _)
Down(st, h, i, n) ==   \* n = number of elements that take part
  LET j1 == 2 * i IN
  IF j1 > n THEN h
  ELSE LET j == IF j1 + 1 <= n /\ Less(st, h[j1 + 1], h[j1]) THEN j1 + 1 ELSE j1 IN
       IF ~Less(st, h[j], h[i]) THEN h ELSE Down(st, Swap(h, i, j), j, n)
HeapPush(st, h, b) == Up(st, Append(h, b), Len(h) + 1)
HeapFix(st, h, i) == LET d == Down(st, h, i, Len(h)) IN IF d # h THEN d ELSE Up(st, h, i)
PosIn(h, b) == IF \E i \in DOMAIN h : h[i] = b THEN CHOOSE i \in DOMAIN h : h[i] = b ELSE 0
HeapPopBar(h) == h[1]                      \* the element Pop returns (after the swap it is the last one)
HeapPopRest(st, h) == LET n == Len(h) IN
                      IF n = 1 THEN <<>> ELSE SubSeq(Down(st, Swap(h, 1, n), 1, n - 1), 1, n - 1)

(* goroutine tables: a finished goroutine's slot is reused, so the tables stay as small as the number of
   goroutines alive at once (indices are only referred to while the goroutine lives) *)
AddSlot(q, rec) == IF \E i \in DOMAIN q : q[i].pc = "gone"
                   THEN LET i == CHOOSE i \in DOMAIN q : q[i].pc = "gone" /\ \A j \in DOMAIN q : q[j].pc = "gone" => i <= j
                        IN [q EXCEPT ![i] = rec]
                   ELSE Append(q, rec)

(* the sync matrices: the k-th synchronised decorator of a bar's side goes into that side's k-th column *)
ColOf(sd, k) == Cardinality({j \in 1..k : sd[j].side = sd[k].side})        \* ordinal among the synced decorators of its side
RECURSIVE AddToMatrix(_, _, _, _)
AddToMatrix(m, b, sd, k) ==
  IF k > Len(sd) THEN m
  ELSE LET side == sd[k].side  col == ColOf(sd, k)
           pos == {i \in DOMAIN m : m[i].side = side /\ m[i].col = col}
           m2 == IF pos = {} THEN Append(m, [side |-> side, col |-> col, members |-> <<[b |-> b, k |-> k]>>])
                 ELSE LET i == CHOOSE i \in pos : TRUE IN [m EXCEPT ![i].members = Append(@, [b |-> b, k |-> k])]
       IN AddToMatrix(m2, b, sd, k + 1)
(* one distributor goroutine per column *)
RECURSIVE SpawnDists(_, _, _)
SpawnDists(d, m, i) == IF i > Len(m) THEN d ELSE SpawnDists(AddSlot(d, [members |-> m[i].members, i |-> 1, pc |-> "gate"]), m, i + 1)

(* the heap manager channel *)
HmIdle(st) == st.hm.pc = "idle"
CanSendNow(st) == (HmIdle(st) /\ ~st.hmclosed) \/ Len(st.hmbuf) < Q
(* deliver request r from a sender that does not block (buffer space or waiting receiver) *)
Deliver(st, r) ==
  IF st.hmclosed THEN [st EXCEPT !.panic = "send on closed channel"]
  ELSE IF HmIdle(st) /\ st.hmbuf = <<>> THEN [st EXCEPT !.hm.pc = "req_gate", !.hm.req = r]
  ELSE [st EXCEPT !.hmbuf = Append(@, r)]

(* ------------------------------------------------------- what is parked *)
(* a parked gate is <<name, bar, k, decorator>>: k distinguishes goroutines of one kind, the decorator name
   ("p0", "a1": side and position among the decorators of that side) identifies a width channel *)
DecName(d) == d.side \o ToString(d.idx)
ErLabels(st) == {<<"er:start", st.er[k].b, k, "">> : k \in {j \in DOMAIN st.er : st.er[j].pc = "gate"}}
               \cup {<<"er:pump", st.er[k].b, k, "">> : k \in {j \in DOMAIN st.er : st.er[j].pc = "pump_gate"}}
DpLabels(st) == {<<"dp:send", st.dp[k].req.b, k, "">> : k \in {j \in DOMAIN st.dp : st.dp[j].pc = "gate"}}
FirstDec(st, D) == DecName(st.bar[D.members[1].b].sd[D.members[1].k])
DistLabels(st) == {<<"dist:start", st.dist[k].members[1].b, k, FirstDec(st, st.dist[k])>> : k \in {j \in DOMAIN st.dist : st.dist[j].pc = "gate"}}
                 \cup {<<"dist:mid", st.dist[k].members[1].b, k, FirstDec(st, st.dist[k])>> : k \in {j \in DOMAIN st.dist : st.dist[j].pc = "mid_gate"}}
BarLabels(st) == {<<"rg:start", b, 0, "">> : b \in {x \in Bars : st.bar[x].rg = "gate"}}
                \cup {<<"fmt:send", b, 0, DecName(st.bar[b].sd[st.bar[b].rdk])>> : b \in {x \in Bars : st.bar[x].rd = "fmt_gate"}}
                \cup {<<"bar:exit", b, 0, "">> : b \in {x \in Bars : st.bar[x].pc = "exit_gate"}}
                \cup {<<"bar:cancel", b, 0, "">> : b \in {x \in Bars : st.bar[x].pc = "cancel_gate"}}
CtLabels(st) ==
  CASE st.ct.pc = "push_gate"   -> {<<"ct:push", st.ct.b, 0, "">>}
    [] st.ct.pc = "hm_gate"     -> {<<"ct:hm:" \o (IF st.ct.cmd = "itertrav" THEN "iter" ELSE st.ct.cmd), 0, 0, "">>}
    [] st.ct.pc = "cancel_gate" -> {<<"ct:cancelbar", st.ct.b, 0, "">>}
    [] st.ct.pc = "flush_gate"  -> {<<"ct:flush", 0, 0, "">>}
    [] st.ct.pc = "io_gate"     -> {<<"ct:io", 0, 0, "">>}
    [] st.ct.pc = "drop_gate"   -> {<<"ct:drop", 0, 0, "">>}
    [] st.ct.pc = "pcancel_gate" -> {<<"ct:pcancel", 0, 0, "">>}
    [] OTHER -> {}
HmLabels(st) ==
  CASE st.hm.pc = "req_gate"  -> {<<"hm:req:" \o (IF st.hm.req.cmd = "itertrav" THEN "iter" ELSE st.hm.req.cmd),
                                    IF st.hm.req.cmd = "push" THEN st.hm.req.b ELSE 0, 0, "">>}
    [] st.hm.pc = "iter_gate" -> {<<"hm:iter", st.hm.order[st.hm.i], 0, "">>}
    [] st.hm.pc = "pop_gate"  -> {<<"hm:pop", st.hm.req.b, 0, "">>}
    [] OTHER -> {}
LsLabels(st) == CASE st.ls = "tick_gate" -> {<<"ls:tick", 0, 0, "">>} [] st.ls = "done_gate" -> {<<"ls:done", 0, 0, "">>} [] OTHER -> {}
ClLabels(st) == {<<"cl", c, 0, "">> : c \in {x \in Clients : st.cl[x].st = "gate"}}
               \cup {<<"pw:cancel", c, 0, "">> : c \in {x \in Clients : st.cl[x].st = "cancel_gate"}}

(* user code: a shutdown listener takes its time (the harness parks it inside OnShutdown) *)
UsLabels(st) == {<<"us:listen", p[1], 0, p[2]>> : p \in st.lsn}

Parked(st) == ClLabels(st) \cup CtLabels(st) \cup HmLabels(st) \cup LsLabels(st) \cup BarLabels(st)
              \cup DistLabels(st) \cup ErLabels(st) \cup DpLabels(st) \cup UsLabels(st)

(* ---------------------------------------------------------------- release *)
(* Passing a gate only makes the goroutine runnable; what it then does is in Micro. *)
Release(st, g) ==
  CASE g[1] = "cl"        -> [st EXCEPT !.cl[g[2]].st = "do"]
    [] g[1] = "pw:cancel" -> [st EXCEPT !.cl[g[2]].st = "cancel_do"]
    [] g[1] = "ct:push"   -> [st EXCEPT !.ct.pc = "push_do"]
    [] g[1] \in {"ct:hm:sync", "ct:hm:iter", "ct:hm:state", "ct:hm:end", "ct:hm:fix"} -> [st EXCEPT !.ct.pc = "hm_do"]
    [] g[1] = "ct:cancelbar" -> [st EXCEPT !.ct.pc = "cancel_do"]
    [] g[1] = "ct:flush"  -> [st EXCEPT !.ct.pc = "flush_do"]
    [] g[1] = "ct:io"     -> [st EXCEPT !.ct.pc = "io_do"]
    [] g[1] = "ct:drop"   -> [st EXCEPT !.ct.pc = "drop_do"]
    [] g[1] = "ct:pcancel" -> [st EXCEPT !.ct.pc = "pcancel_do"]
    [] g[1] \in {"hm:req:push", "hm:req:sync", "hm:req:iter", "hm:req:state", "hm:req:end", "hm:req:fix"} -> [st EXCEPT !.hm.pc = "req_do"]
    [] g[1] = "hm:iter"   -> [st EXCEPT !.hm.pc = "iter_do"]
    [] g[1] = "hm:pop"    -> [st EXCEPT !.hm.pc = "pop_do"]
    [] g[1] = "ls:tick"   -> [st EXCEPT !.ls = "tick_send"]
    [] g[1] = "ls:done"   -> [st EXCEPT !.ls = "done_do"]
    [] g[1] = "rg:start"  -> [st EXCEPT !.bar[g[2]].rg = "handoff"]
    [] g[1] = "fmt:send"  -> [st EXCEPT !.bar[g[2]].rd = "fmt_send"]
    [] g[1] = "bar:exit"  -> [st EXCEPT !.bar[g[2]].pc = "exit_do"]
    [] g[1] = "bar:cancel" -> [st EXCEPT !.bar[g[2]].pc = "idle", !.bar[g[2]].ctx = TRUE]
    [] g[1] = "dist:start" -> [st EXCEPT !.dist[g[3]].pc = "collect"]
    [] g[1] = "dist:mid"  -> [st EXCEPT !.dist[g[3]].pc = "distribute", !.dist[g[3]].i = 1]
    [] g[1] = "er:start"  -> [st EXCEPT !.er[g[3]].pc = "trav_send"]
    [] g[1] = "er:pump"   -> [st EXCEPT !.er[g[3]].pc = "pump_send"]
    [] g[1] = "dp:send"   -> [st EXCEPT !.dp[g[3]].pc = "send"]
    [] g[1] = "us:listen" -> [st EXCEPT !.lsn = @ \ {<<g[2], g[4]>>}, !.bwg = @ - 1]

(* ------------------------------------------------- micro steps (eager) *)
(* Each operator returns the SET of states one deterministic or chosen move leads to; {} = cannot move. *)

(* a bar closure that makes the bar terminal: early refresh goroutine (auto-refresh container) *)
ErReferenced(st, k) ==   \* a traversal request of this goroutine is still on its way or being served
  \/ (st.hm.pc # "idle" /\ st.hm.req.cmd = "itertrav" /\ st.hm.req.e = k)
  \/ \E i \in DOMAIN st.hmbuf : st.hmbuf[i].cmd = "itertrav" /\ st.hmbuf[i].e = k
  \/ \E i \in DOMAIN st.hmblk : st.hmblk[i].req.cmd = "itertrav" /\ st.hmblk[i].req.e = k
  \/ (st.ct.cmd = "itertrav" /\ st.ct.e = k /\ st.ct.pc \in {"hm_gate", "hm_do", "hm_blocked", "hm_sent"})
(* triggerCompletion: an early-refresh goroutine in an auto-refresh container; otherwise the bar cancels
   itself (gate bar:cancel, inside the closure its goroutine is executing) *)
SpawnEr(st, b) ==
  IF Refresh # "auto" THEN [st EXCEPT !.bar[b].pc = "cancel_gate"] ELSE
  LET rec == [b |-> b, pc |-> "gate", drop |-> FALSE, closed |-> FALSE]
      free == {k \in DOMAIN st.er : st.er[k].pc = "gone" /\ ~ErReferenced(st, k)} IN
  IF free = {} THEN [st EXCEPT !.er = Append(@, rec)]
  ELSE LET k == CHOOSE k \in free : \A j \in free : k <= j IN [st EXCEPT !.er[k] = rec]

ApplyBarOp(st, b, op) ==
  LET B == st.bar[b] IN
  CASE op.op = "incr" ->
         LET c1 == B.cur + op.n
             fire == B.trig /\ c1 >= B.total
             st1 == [st EXCEPT !.bar[b].cur = IF fire THEN B.total ELSE c1] IN
         IF fire THEN SpawnEr(st1, b) ELSE st1
    [] op.op = "abort" ->
         IF B.aborted \/ Completed(B) THEN st
         ELSE SpawnEr([st EXCEPT !.bar[b].aborted = TRUE, !.bar[b].rm = op.drop, !.bar[b].trig = TRUE], b)
    [] op.op = "setcur" ->
         IF op.n < 0 THEN st
         ELSE LET fire == B.trig /\ op.n >= B.total
                  st1 == [st EXCEPT !.bar[b].cur = IF fire THEN B.total ELSE op.n] IN
              IF fire THEN SpawnEr(st1, b) ELSE st1
    [] op.op = "settotal" ->
         IF B.trig THEN st
         ELSE LET nt == IF op.n < 0 THEN B.cur ELSE op.n
                  st1 == [st EXCEPT !.bar[b].total = nt] IN
              IF op.drop THEN SpawnEr([st1 EXCEPT !.bar[b].cur = nt, !.bar[b].trig = TRUE], b) ELSE st1
    [] op.op = "trigger" ->
         IF B.trig THEN st
         ELSE IF B.cur >= B.total THEN SpawnEr([st EXCEPT !.bar[b].cur = B.total, !.bar[b].trig = TRUE], b)
         ELSE [st EXCEPT !.bar[b].trig = TRUE]
    [] OTHER -> st

(* the client's call returns: next call or done *)
WorkerDone(st, c) == IF UWG /\ c # 1 /\ ~st.cl[c].wd THEN [st EXCEPT !.cl[c].wd = TRUE, !.uwg = @ - 1] ELSE st
Return(st, c) ==
  LET n == st.cl[c].pc + 1  op == Prog[c][st.cl[c].pc]
      st1 == [st EXCEPT !.cl[c].pc = n, !.cl[c].st = IF n > Len(Prog[c]) THEN "done" ELSE "gate",
                        !.added = IF op.op = "add" THEN @ \cup {op.b} ELSE @]
  IN IF n > Len(Prog[c]) THEN WorkerDone(st1, c) ELSE st1

(* --- clients --- *)
MicroClient(st, c) ==
  LET C == st.cl[c] IN
  IF C.st = "do" THEN
     LET op == Op(c, st) IN
     CASE op.op \in {"add", "prio"} -> {[st EXCEPT !.cl[c].st = "sendct"]}
       \* Progress.Write; n = 2: the line reaches the container in two calls (its text, then its line feed)
       [] op.op = "write" -> {[st EXCEPT !.cl[c].st = "sendio", !.cl[c].k = IF op.n = 2 THEN 2 ELSE 1]}
       [] op.op \in {"incr", "abort", "setcur", "settotal", "trigger", "refill"} ->
            IF st.bar[op.b].exists THEN {[st EXCEPT !.cl[c].st = "sendbar"]} ELSE {Return(st, c)}
       [] op.op = "get" ->       \* ID, Current, Completed, Aborted: four round trips to the bar (or its published state)
            IF st.bar[op.b].exists THEN {[st EXCEPT !.cl[c].st = "get", !.cl[c].k = 1]} ELSE {Return(st, c)}
       [] op.op = "get1" ->      \* a single getter
            IF st.bar[op.b].exists THEN {[st EXCEPT !.cl[c].st = "get", !.cl[c].k = 4]} ELSE {Return(st, c)}
       [] op.op = "barwait" -> IF st.bar[op.b].exists THEN {[st EXCEPT !.cl[c].st = "barwait"]} ELSE {Return(st, c)}
       [] op.op = "cancel" ->    \* the context given to NewWithContext is cancelled
            {Return([st EXCEPT !.pctx = TRUE, !.done = IF Refresh = "none" THEN TRUE ELSE @,
                               !.bar = [b \in Bars |-> [@[b] EXCEPT !.ctx = TRUE]]], c)}
       [] op.op = "wait"  -> {[WorkerDone(st, c) EXCEPT !.cl[c].st = "waitbwg"]}
       [] op.op = "shutdown" -> {[st EXCEPT !.cl[c].st = "cancel_gate"]}
       [] op.op = "refresh" -> {Return([st EXCEPT !.mreq = @ + 1], c)}
       [] OTHER -> {Return(st, c)}
  ELSE IF C.st = "waitbwg" /\ st.bwg = 0 THEN {[st EXCEPT !.cl[c].st = "cancel_gate"]}
  ELSE IF C.st = "cancel_do" THEN
     \* p.cancel(): the container context and every bar's child context
     {[st EXCEPT !.pctx = TRUE, !.done = IF Refresh = "none" THEN TRUE ELSE @,
                 !.bar = [b \in Bars |-> [@[b] EXCEPT !.ctx = TRUE]], !.cl[c].st = "waitpwg"]}
  ELSE IF C.st = "waitpwg" /\ st.ctgone THEN
     \* Wait (not Shutdown) finally waits for the user wait group
     IF UWG /\ Op(c, st).op = "wait" THEN {[st EXCEPT !.cl[c].st = "waituwg"]} ELSE {Return(st, c)}
  ELSE IF C.st = "waituwg" /\ st.uwg = 0 THEN {Return(st, c)}
  ELSE IF C.st = "barwait" /\ st.bar[Op(c, st).b].pc = "gone" THEN {Return(st, c)}
  ELSE IF C.st = "get" /\ st.bar[Op(c, st).b].pc = "gone" THEN {Return(st, c)}
  ELSE {}

(* the escape alternatives of the clients' selects, taken only when the other side cannot receive *)
ClientEscapes(st) ==
  {Return(st, c) : c \in {x \in Clients : st.cl[x].st \in {"sendct", "sendio"} /\ st.done}}
  \cup {Return(st, c) : c \in {x \in Clients : st.cl[x].st = "sendbar" /\ st.bar[Op(x, st).b].ctx}}

(* --- heap manager --- *)
HmNext(st) ==   \* the manager goes back to `range m`
  IF st.hmbuf # <<>> THEN
     LET st1 == [st EXCEPT !.hm = [pc |-> "req_gate", req |-> Head(st.hmbuf), i |-> 0, order |-> <<>>, e |-> 0], !.hmbuf = Tail(@)] IN
     IF st.hmblk # <<>> THEN   \* the first blocked sender's value enters the buffer; the sender continues
        LET w == Head(st.hmblk)
            st2 == [st1 EXCEPT !.hmbuf = Append(@, w.req), !.hmblk = Tail(@)] IN
        IF w.from = 0 THEN [st2 EXCEPT !.ct.pc = "hm_sent"] ELSE [st2 EXCEPT !.dp[w.from].pc = "gone"]
     ELSE st1
  ELSE IF st.hmblk # <<>> THEN   \* unbuffered hand-over (Q = 0)
     LET w == Head(st.hmblk)
         st1 == [st EXCEPT !.hm = [pc |-> "req_gate", req |-> w.req, i |-> 0, order |-> <<>>, e |-> 0], !.hmblk = Tail(@)] IN
     IF w.from = 0 THEN [st1 EXCEPT !.ct.pc = "hm_sent"] ELSE [st1 EXCEPT !.dp[w.from].pc = "gone"]
  ELSE IF st.hmclosed THEN [st EXCEPT !.hm.pc = "gone"]
  ELSE [st EXCEPT !.hm.pc = "idle", !.hm.req = NoReq]

MicroHm(st) ==
  LET H == st.hm r == st.hm.req IN
  IF H.pc = "req_do" THEN
     CASE r.cmd = "push" ->
            {HmNext([st EXCEPT !.heap = HeapPush(st, st.heap, r.b), !.hsync = @ \/ r.sync,
                               !.bar[r.b].index = 1, !.bar[r.b].pushed = TRUE])}
       [] r.cmd = "sync" ->
            IF st.hsync \/ st.hlen # Len(st.heap)
            THEN {[st EXCEPT !.hm.pc = "sync_table", !.hm.i = 1, !.hm.order = st.heap, !.matrix = <<>>]}
            ELSE {HmNext([st EXCEPT !.dist = SpawnDists(@, st.matrix, 1)])}
       [] r.cmd \in {"iter", "itertrav"} ->
            IF st.heap = <<>> THEN
               IF r.cmd = "iter" THEN {[st EXCEPT !.hm.pc = "pop_loop", !.ct.iterClosed = TRUE, !.ct.exempt = st.lazyDirty, !.lazyDirty = FALSE]}
               ELSE {HmNext([st EXCEPT !.er[r.e].closed = TRUE])}
            ELSE {[st EXCEPT !.hm.pc = "iter_gate", !.hm.i = 1, !.hm.order = st.heap, !.hm.e = r.e]}
       [] r.cmd = "fix" ->
            \* index < 0 (popped, not pushed back yet): ignored; index 0 for a bar never pushed (queued): position 0 is fixed
            LET pos == PosIn(st.heap, r.b) IN
            IF pos = 0 /\ st.bar[r.b].pushed THEN {HmNext(st)}
            ELSE LET st1 == [st EXCEPT !.bar[r.b].prio = r.v] IN
                 IF r.sync \/ st.heap = <<>> THEN {HmNext([st1 EXCEPT !.lazyDirty = @ \/ r.sync])}
                 ELSE {HmNext([st1 EXCEPT !.heap = HeapFix(st1, st.heap, IF pos = 0 THEN 1 ELSE pos)])}
       [] r.cmd = "state" -> {[st EXCEPT !.hm.pc = "state_send"]}
       [] r.cmd = "end" ->
            \* close(m): a sender still blocked on the channel panics
            {HmNext([st EXCEPT !.hmclosed = TRUE,
                               !.panic = IF st.hmblk # <<>> THEN "send on closed channel" ELSE @])}
       [] OTHER -> {HmNext(st)}
  ELSE IF H.pc = "sync_table" THEN
     \* b.wSyncTable(): a round trip to the bar's goroutine, or the published state once it has exited
     IF H.i > Len(H.order) THEN
        {HmNext([st EXCEPT !.hsync = FALSE, !.hlen = Len(st.heap), !.dist = SpawnDists(@, st.matrix, 1)])}
     ELSE LET b == H.order[H.i] IN
          IF st.bar[b].pc = "gone"
          THEN {[st EXCEPT !.hm.i = @ + 1, !.matrix = AddToMatrix(@, b, st.bar[b].sd, 1)]}
          ELSE {}
  ELSE IF H.pc = "pop_loop" THEN
     IF st.heap = <<>> THEN {HmNext([st EXCEPT !.ct.popClosed = TRUE])}
     ELSE LET b == HeapPopBar(st.heap) IN
          {[st EXCEPT !.heap = HeapPopRest(st, st.heap), !.bar[b].index = -1, !.hm.pc = "pop_gate", !.hm.req.b = b]}
  ELSE {}

(* --- detached pushes --- *)
MicroDp(st, k) ==
  IF st.dp[k].pc = "send" THEN
     IF st.hmclosed THEN {[st EXCEPT !.panic = "send on closed channel", !.dp[k].pc = "gone"]}
     ELSE IF CanSendNow(st) THEN {[Deliver(st, st.dp[k].req) EXCEPT !.dp[k].pc = "gone"]}
     ELSE {[st EXCEPT !.dp[k].pc = "blocked", !.hmblk = Append(@, [req |-> st.dp[k].req, from |-> k])]}
  ELSE {}

(* --- the container --- *)
StartRender(st) == [st EXCEPT !.ct.pc = "hm_gate", !.ct.cmd = "sync", !.ct.rows = <<>>, !.ct.prios = <<>>, !.ct.popm = <<>>, !.ct.popc = 0]

FlushNext(st) == [st EXCEPT !.ct.pc = "recv_pop", !.ct.b = NoBar]

PushThen(st, b, sy, then) == [st EXCEPT !.ct.pc = "push_gate", !.ct.b = b, !.ct.sync = sy, !.ct.then = then]

MicroCt(st) ==
  LET T == st.ct IN
  CASE T.pc = "push_do" ->
         LET r == Req("push", T.b, T.sync, 0)
             st1 == IF CanSendNow(st) THEN Deliver(st, r)
                    ELSE [st EXCEPT !.dp = AddSlot(@, [req |-> r, pc |-> "gate"])] IN
         IF T.then = "addreply" THEN {Return([st1 EXCEPT !.ct.pc = "idle"], T.c)}
         ELSE {FlushNext(st1)}
    [] T.pc = "hm_do" ->
         LET r == IF T.cmd = "fix" THEN [Req("fix", T.b, T.lazy, 0) EXCEPT !.v = T.v] ELSE Req(T.cmd, NoBar, FALSE, T.e) IN
         IF st.hmclosed THEN {[st EXCEPT !.panic = "send on closed channel", !.ct.pc = "gone"]}
         ELSE IF CanSendNow(st) THEN {[Deliver(st, r) EXCEPT !.ct.pc = "hm_sent"]}
         ELSE {[st EXCEPT !.ct.pc = "hm_blocked", !.hmblk = Append(@, [req |-> r, from |-> 0])]}
    [] T.pc = "hm_sent" ->
         CASE T.cmd = "sync"     -> {[st EXCEPT !.ct.pc = "hm_gate", !.ct.cmd = "iter"]}
           [] T.cmd = "iter"     -> {[st EXCEPT !.ct.pc = "recv_iter"]}
           [] T.cmd = "itertrav" -> {[st EXCEPT !.ct.pc = "idle"]}
           [] T.cmd = "state"    -> {[st EXCEPT !.ct.pc = "state_wait"]}
           [] T.cmd = "end"      -> {[st EXCEPT !.ct.pc = "gone", !.ctgone = TRUE]}
           [] OTHER -> {[st EXCEPT !.ct.pc = "idle"]}
    [] T.pc = "recv_iter" /\ T.iterClosed -> {[st EXCEPT !.ct.pc = "recv_pop", !.ct.iterClosed = FALSE]}
    [] T.pc = "recv_pop" /\ T.popClosed /\ st.hm.pc # "pop_do" -> {[st EXCEPT !.ct.pc = "flush_gate", !.ct.popClosed = FALSE]}
    [] T.pc = "recv_frame" ->
         LET b == T.b F == st.bar[b].frame IN
         IF ~F.has THEN {}
         ELSE IF F.err THEN {[st EXCEPT !.bar[b].frame.has = FALSE, !.ct.pc = "drop_gate"]}
         ELSE LET st1 == [st EXCEPT !.bar[b].frame.has = FALSE, !.ct.rows = Append(@, b), !.ct.prios = Append(@, st.bar[b].prio),
                                         !.ct.popm = Append(@, F.sd = 2 /\ Pop /\ ~F.nopop)] IN   \* popm: this row leaves the heap with this frame
              IF F.sd = 1 THEN {[st1 EXCEPT !.ct.pc = "cancel_gate"]}
              ELSE IF F.sd = 2 /\ Pop /\ ~F.nopop THEN {FlushNext([st1 EXCEPT !.ct.popc = @ + 1])}
              ELSE {PushThen(st1, b, FALSE, "flush")}
    [] T.pc = "cancel_do" ->
         LET b == T.b F == st.bar[b].frame
             st1 == [st EXCEPT !.bar[b].ctx = TRUE] IN
         IF st.queue[b] # NoBar THEN
            LET qb == st.queue[b] IN
            {PushThen([st1 EXCEPT !.queue[b] = NoBar, !.bar[qb].prio = st.bar[b].prio], qb, TRUE, "flush")}
         ELSE IF Pop /\ ~st.bar[b].nopop THEN
            {PushThen([st1 EXCEPT !.bar[b].prio = st.popPrio, !.popPrio = @ + 1], b, FALSE, "flush")}
         ELSE IF ~st.bar[b].rm THEN {PushThen(st1, b, FALSE, "flush")}
         ELSE {FlushNext(st1)}
    [] T.pc = "flush_do" ->
         \* cw.Flush: one Write on the output unless there is nothing to write (no rows, no text, no pending cursor-up)
         LET writes == Len(T.rows) > 0 \/ st.cw > 0 \/ st.cuuPend
             failsOut == writes /\ Fault.at # 0 /\ Fault.kind = "out" /\ st.nwrites + 1 = Fault.at
             st1 == [st EXCEPT !.out = [rows |-> T.rows, prios |-> T.prios, popm |-> T.popm, exempt |-> T.exempt, text |-> st.cw, pop |-> T.popc],
                               !.written = @ + st.cw, !.cw = 0, !.nwrites = IF writes /\ @ < 3 THEN @ + 1 ELSE @,
                               !.cuuPend = Len(T.rows) - T.popc > 0] IN
         IF failsOut   \* the error comes back from render(): serve() starts the drain goroutine and cancels (no drop: the cycle is over)
         THEN (IF T.final   \* in the final render loop the error is printed and the loop left: no drain goroutine, no cancel
               THEN {[st EXCEPT !.nwrites = @ + 1, !.err = TRUE, !.debug = @ + 1, !.ct.pc = "hm_gate", !.ct.cmd = "end"]}
               ELSE {[st EXCEPT !.nwrites = @ + 1, !.err = TRUE, !.drain = "run", !.ct.pc = "pcancel_gate"]})
         ELSE IF T.final THEN {[st1 EXCEPT !.ct.pc = "hm_gate", !.ct.cmd = "state"]}
         ELSE {[st1 EXCEPT !.ct.pc = "idle"]}
    [] T.pc = "drop_do" ->
         \* close(s.iterDrop); b.cancel(); return err  -- then serve(): go drain(); gate; p.cancel()
         IF T.final   \* ... or, in the final render loop: print the error, leave the loop, end the heap manager
         THEN {[st EXCEPT !.iterDrop = TRUE, !.bar[T.b].ctx = TRUE, !.err = TRUE, !.debug = @ + 1, !.ct.pc = "hm_gate", !.ct.cmd = "end"]}
         ELSE {[st EXCEPT !.iterDrop = TRUE, !.bar[T.b].ctx = TRUE, !.err = TRUE, !.drain = "run", !.ct.pc = "pcancel_gate"]}
    [] T.pc = "pcancel_do" ->
         {[st EXCEPT !.pctx = TRUE, !.done = IF Refresh = "none" THEN TRUE ELSE @,
                     !.bar = [b \in Bars |-> [@[b] EXCEPT !.ctx = TRUE]], !.ct.pc = "err_wait"]}
    [] T.pc = "err_wait" /\ st.done ->
         {[st EXCEPT !.debug = @ + 1, !.ct.pc = "hm_gate", !.ct.cmd = "end"]}
    [] T.pc = "io_do" ->
         LET st1 == [st EXCEPT !.cw = @ + 1, !.accepted = @ + 1, !.ct.pc = "idle"] IN
         IF st.cl[T.c].k > 1 THEN {[st1 EXCEPT !.cl[T.c].st = "sendio", !.cl[T.c].k = @ - 1]}   \* the second call follows at once
         ELSE {Return(st1, T.c)}
    [] OTHER -> {}

(* --- bars: the render closure, run by the bar's goroutine or, once it has exited, by the render goroutine --- *)
FinishRender(st, b) ==
  LET B == st.bar[b]
      term == Terminal(B)
      mine  == Fault.at # 0 /\ Fault.kind \in {"fill", "ext"} /\ Fault.b = b
      fails == mine /\ Fault.kind = "fill" /\ B.fills + 1 = Fault.at
      \* an extender error comes after the row was drawn: the frame carries the error and the shutdown bookkeeping
      failsExt == mine /\ Fault.kind = "ext" /\ B.fills + 1 = Fault.at
      st1 == IF fails
             THEN [st EXCEPT !.bar[b].frame = [has |-> TRUE, sd |-> 0, rm |-> FALSE, nopop |-> FALSE, err |-> TRUE],
                             !.bar[b].fills = @ + 1, !.bar[b].rd = "none"]
             ELSE [st EXCEPT !.bar[b].frame = [has |-> TRUE, sd |-> IF term THEN B.shutdown ELSE 0, rm |-> B.rm, nopop |-> B.nopop, err |-> failsExt],
                             !.bar[b].shutdown = IF term THEN (IF @ >= 3 THEN 3 ELSE @ + 1) ELSE @,
                             !.bar[b].fills = IF mine /\ @ < Fault.at THEN @ + 1 ELSE @,
                             !.bar[b].rd = "none"] IN
  IF B.host = "bar" THEN [st1 EXCEPT !.bar[b].host = "none", !.bar[b].pc = "idle"]
  ELSE [st1 EXCEPT !.bar[b].host = "none", !.bar[b].rg = "none"]

MicroBar(st, b) ==
  LET B == st.bar[b] IN
  IF B.rd = "start" THEN
     IF B.sd # <<>> THEN {[st EXCEPT !.bar[b].rd = "fmt_gate", !.bar[b].rdk = 1]} ELSE {FinishRender(st, b)}
  ELSE IF B.rd = "fmt_next" THEN
     IF B.rdk < Len(B.sd) THEN {[st EXCEPT !.bar[b].rd = "fmt_gate", !.bar[b].rdk = @ + 1]} ELSE {FinishRender(st, b)}
  ELSE IF B.rd = "fill" THEN {FinishRender(st, b)}
  ELSE IF B.rg = "handoff" /\ B.pc = "gone" THEN
     \* <-b.bsOk: the render goroutine runs the closure itself on the published state
     {[st EXCEPT !.bar[b].rg = "running", !.bar[b].host = "rg", !.bar[b].rd = "start"]}
  ELSE IF B.pc = "exit_do" THEN
     {[st EXCEPT !.bar[b].aborted = ~Completed(B), !.bar[b].pc = "gone", !.bwg = @ - 1]}
  ELSE {}

(* --- distributors --- *)
MicroDist(st, k) ==
  LET D == st.dist[k] IN
  IF D.pc = "collect" /\ D.i > Len(D.members) THEN {[st EXCEPT !.dist[k].pc = "mid_gate"]}
  ELSE IF D.pc = "distribute" /\ D.i > Len(D.members) THEN {[st EXCEPT !.dist[k].pc = "gone"]}
  ELSE {}

(* --- early refresh --- *)
MicroEr(st, k) ==
  IF st.er[k].pc = "iter_recv" /\ st.er[k].closed THEN {[st EXCEPT !.er[k].pc = "pump_gate"]} ELSE {}

(* --- listener --- *)
MicroLs(st) ==
  IF st.ls = "done_do" THEN {[st EXCEPT !.done = TRUE, !.ls = "gone"]}
  ELSE IF st.ls = "idle" /\ st.pctx /\ ~st.lsPend /\ st.mreq = 0 THEN {[st EXCEPT !.ls = "done_gate"]}
  ELSE IF st.ls = "idle" /\ ~st.pctx /\ st.lsPend THEN {[st EXCEPT !.ls = "tick_gate", !.lsPend = FALSE]}
  ELSE IF st.ls = "idle" /\ ~st.pctx /\ st.mreq > 0 THEN {[st EXCEPT !.ls = "tick_gate", !.mreq = @ - 1]}
  ELSE {}

(* deterministic moves of any goroutine (they commute; the order chosen here does not matter) *)
Deterministic(st) ==
  LET cs == UNION {MicroClient(st, c) : c \in Clients}
      hs == MicroHm(st)
      ts == MicroCt(st)
      bs == UNION {MicroBar(st, b) : b \in Bars}
      ds == UNION {MicroDist(st, k) : k \in DOMAIN st.dist}
      es == UNION {MicroEr(st, k) : k \in DOMAIN st.er}
      ps == UNION {MicroDp(st, k) : k \in DOMAIN st.dp}
      ls == MicroLs(st)
  IN IF ts # {} THEN ts ELSE IF hs # {} THEN hs ELSE IF bs # {} THEN bs ELSE IF ds # {} THEN ds
     ELSE IF ps # {} THEN ps ELSE IF es # {} THEN es ELSE IF ls # {} THEN ls ELSE cs

(* --- rendezvous and selects: moves that need two parties, or a choice among ready cases --- *)
Rendezvous(st) ==
  \* the container's select: a client closure, a Write, a traversal request, a render request, done
  (IF st.ct.pc = "idle" THEN
      {LET op == Op(c, st) b == IF op.op = "add" THEN op.b ELSE st.nbars + 1
           B0 == [BarInit EXCEPT !.exists = TRUE, !.total = op.total, !.trig = (op.total > 0), !.rm = op.rm, !.nopop = op.nopop,
                                 !.sd = op.sd, !.ln = op.ln, !.after = op.after, !.pc = "idle",
                                 !.prio = IF op.hasprio THEN op.prio ELSE b - 1, !.ctx = st.pctx]
           st1 == [st EXCEPT !.bar[b] = B0, !.nbars = b, !.bwg = @ + 1, !.ct.c = c]
       IN IF op.op = "prio"
          THEN Return([st EXCEPT !.ct.pc = "hm_gate", !.ct.cmd = "fix", !.ct.b = op.b, !.ct.v = op.n, !.ct.lazy = op.drop], c)
          ELSE IF op.after # NoBar
          THEN Return([st1 EXCEPT !.queue[op.after] = b], c)
          ELSE PushThen(st1, b, TRUE, "addreply")
         : c \in {x \in Clients : st.cl[x].st = "sendct"}}
      \cup {[st EXCEPT !.ct.pc = "io_gate", !.ct.c = c, !.cl[c].st = "inio"] : c \in {x \in Clients : st.cl[x].st = "sendio"}}
      \cup {[st EXCEPT !.ct.pc = "hm_gate", !.ct.cmd = "itertrav", !.ct.e = k, !.er[k].pc = "iter_recv"]
               : k \in {j \in DOMAIN st.er : st.er[j].pc = "trav_send"}}
      \cup (IF st.ls = "tick_send" THEN {StartRender([st EXCEPT !.ls = "idle"])} ELSE {})
      \cup {StartRender([st EXCEPT !.er[k].pc = "pump_gate"]) : k \in {j \in DOMAIN st.er : st.er[j].pc = "pump_send"}}
      \cup (IF st.done THEN {IF Refresh = "auto" THEN StartRender([st EXCEPT !.ct.final = TRUE])
                                ELSE [st EXCEPT !.ct.pc = "hm_gate", !.ct.cmd = "end"]} ELSE {})
   ELSE {})
  \* unordered iteration: the manager hands a bar to the container (which starts its render goroutine) ...
  \cup (IF st.hm.pc = "iter_do" /\ st.hm.req.cmd = "iter" /\ st.ct.pc = "recv_iter"
        THEN LET b == st.hm.order[st.hm.i]
                 st1 == [st EXCEPT !.bar[b].rg = "gate"] IN
             {IF st.hm.i = Len(st.hm.order) THEN [st1 EXCEPT !.hm.pc = "pop_loop", !.ct.iterClosed = TRUE, !.ct.exempt = st.lazyDirty, !.lazyDirty = FALSE]
              ELSE [st1 EXCEPT !.hm.pc = "iter_gate", !.hm.i = @ + 1]}
        ELSE {})
  \* ... or to an early-refresh traversal, which may close its drop channel
  \cup (IF st.hm.pc = "iter_do" /\ st.hm.req.cmd = "itertrav"
        THEN LET k == st.hm.e E == st.er[k] b == st.hm.order[st.hm.i] IN
             IF E.drop THEN {HmNext(st)}
             ELSE IF E.pc = "iter_recv" THEN
                LET other == b # E.b /\ ~st.bar[b].ctx
                    st1 == IF other THEN [st EXCEPT !.er[k].drop = TRUE, !.er[k].pc = "gone"] ELSE st IN
                {IF st.hm.i = Len(st.hm.order) THEN HmNext([st1 EXCEPT !.er[k].closed = TRUE])
                 ELSE [st1 EXCEPT !.hm.pc = "iter_gate", !.hm.i = @ + 1]}
             ELSE {}
        ELSE {})
  \* ordered iteration: delivery, or the drop branch (the bar in hand goes back into the heap)
  \cup (IF st.hm.pc = "pop_do" /\ st.ct.pc = "recv_pop"
        THEN {[st EXCEPT !.ct.pc = "recv_frame", !.ct.b = st.hm.req.b, !.hm.pc = "pop_loop"]} ELSE {})
  \cup (IF st.hm.pc = "pop_do" /\ st.iterDrop
        THEN {HmNext([st EXCEPT !.heap = HeapPush(st, st.heap, st.hm.req.b), !.bar[st.hm.req.b].index = 1, !.ct.popClosed = TRUE])}
        ELSE {})
  \* a distributor that sees the drop channel closed gives up (bars that have not sent yet stay blocked)
  \cup {[st EXCEPT !.dist[k].pc = "gone"] : k \in {j \in DOMAIN st.dist : st.dist[j].pc = "collect" /\ st.iterDrop
                                                                           /\ st.dist[j].i <= Len(st.dist[j].members)}}
  \* after a render error a short-lived goroutine drains render requests until done is closed
  \cup (IF st.drain = "run" /\ st.ls = "tick_send" THEN {[st EXCEPT !.ls = "idle"]} ELSE {})
  \cup {[st EXCEPT !.er[k].pc = "pump_gate"] : k \in {j \in DOMAIN st.er : st.drain = "run" /\ st.er[j].pc = "pump_send"}}
  \cup (IF st.drain = "run" /\ st.done THEN {[st EXCEPT !.drain = "gone"]} ELSE {})

  \* h_state reply
  \cup (IF st.hm.pc = "state_send" /\ st.ct.pc = "state_wait"
        THEN LET upd == st.hsync \/ st.hlen # Len(st.heap) IN
             {HmNext(IF upd THEN StartRender(st) ELSE [st EXCEPT !.ct.pc = "hm_gate", !.ct.cmd = "end"])}
        ELSE {})
  \* a bar's goroutine: a client closure, the render closure, or its cancelled context
  \cup UNION {
        (IF st.bar[b].pc = "idle" /\ st.bar[b].host = "none" THEN
            {Return(ApplyBarOp(st, b, Op(c, st)), c) : c \in {x \in Clients : st.cl[x].st = "sendbar" /\ Op(x, st).b = b}}
            \cup {IF st.cl[c].k >= 4 THEN Return(st, c) ELSE [st EXCEPT !.cl[c].k = @ + 1]
                     : c \in {x \in Clients : st.cl[x].st = "get" /\ Op(x, st).b = b}}
            \cup (IF st.bar[b].rg = "handoff"
                  THEN {[st EXCEPT !.bar[b].rg = "none", !.bar[b].pc = "busy", !.bar[b].host = "bar", !.bar[b].rd = "start"]} ELSE {})
            \cup (IF st.hm.pc = "sync_table" /\ st.hm.i <= Len(st.hm.order) /\ st.hm.order[st.hm.i] = b
                  THEN {[st EXCEPT !.hm.i = @ + 1, !.matrix = AddToMatrix(@, b, st.bar[b].sd, 1)]} ELSE {})
            \* <-b.ctx.Done(): one goroutine per shutdown listener (bwg.Add(1) each, before the bar's own Done)
            \cup (IF st.bar[b].ctx
                  THEN {[st EXCEPT !.bar[b].pc = "exit_gate",
                                   !.lsn = @ \cup {<<b, DecName(st.bar[b].ln[k])>> : k \in DOMAIN st.bar[b].ln},
                                   !.bwg = @ + Len(st.bar[b].ln)]}
                  ELSE {})
         ELSE {}) : b \in Bars}
  \* the width exchange
  \cup UNION {
        (LET D == st.dist[k] IN
         IF D.pc = "collect" /\ D.i <= Len(D.members)
            /\ st.bar[D.members[D.i].b].rd = "fmt_send" /\ st.bar[D.members[D.i].b].rdk = D.members[D.i].k
         THEN {[st EXCEPT !.dist[k].i = @ + 1, !.bar[D.members[D.i].b].rd = "fmt_recv"]} ELSE {})
        \cup
        (LET D == st.dist[k] IN
         IF D.pc = "distribute" /\ D.i <= Len(D.members)
            /\ st.bar[D.members[D.i].b].rd = "fmt_recv" /\ st.bar[D.members[D.i].b].rdk = D.members[D.i].k
         THEN {[st EXCEPT !.dist[k].i = @ + 1, !.bar[D.members[D.i].b].rd = "fmt_next"]} ELSE {})
        : k \in DOMAIN st.dist}
  \* two distributors on one width channel (n > q: a stale one still collecting while the current one distributes): the
  \* value the current one hands back may be taken by the stale one instead of the bar, which goes on waiting
  \cup UNION {
        (LET D1 == st.dist[k1]  D2 == st.dist[k2] IN
         IF k1 # k2 /\ D1.pc = "distribute" /\ D1.i <= Len(D1.members) /\ D2.pc = "collect" /\ D2.i <= Len(D2.members)
            /\ D1.members[D1.i].b = D2.members[D2.i].b /\ D1.members[D1.i].k = D2.members[D2.i].k
            /\ st.bar[D1.members[D1.i].b].rd = "fmt_recv" /\ st.bar[D1.members[D1.i].b].rdk = D1.members[D1.i].k
         THEN {[st EXCEPT !.dist[k1].i = @ + 1, !.dist[k2].i = @ + 1]} ELSE {})
        : k1 \in DOMAIN st.dist, k2 \in DOMAIN st.dist}
  \* an early-refresh pump whose bar has been cancelled leaves
  \cup {[st EXCEPT !.er[k].pc = "gone"] : k \in {j \in DOMAIN st.er : st.er[j].pc = "pump_send" /\ st.bar[st.er[j].b].ctx}}
  \* traverseBars: case <-p.done
  \cup {[st EXCEPT !.er[k].pc = "pump_gate"] : k \in {j \in DOMAIN st.er : st.er[j].pc = "trav_send" /\ st.done}}
  \* the listener's select with both a tick and the cancelled context ready
  \cup (IF st.ls = "idle" /\ st.pctx /\ st.lsPend
        THEN {[st EXCEPT !.ls = "done_gate"], [st EXCEPT !.ls = "tick_gate", !.lsPend = FALSE]} ELSE {})
  \cup (IF st.ls = "idle" /\ st.pctx /\ st.mreq > 0
        THEN {[st EXCEPT !.ls = "done_gate"], [st EXCEPT !.ls = "tick_gate", !.mreq = @ - 1]} ELSE {})
  \cup ClientEscapes(st)

(* run to quiescence: deterministic moves first, then the choices *)
RECURSIVE Quiesce(_)
Quiesce(st) ==
  IF st.panic # "none" THEN {st}
  ELSE LET d == Deterministic(st) IN
       IF d # {} THEN UNION {Quiesce(t) : t \in d}
       ELSE LET r == Rendezvous(st) IN
            IF r # {} THEN UNION {Quiesce(t) : t \in r} ELSE {st}

(* ------------------------------------------------------------------ steps *)
Label(g) == g[1] \o (IF g[2] # 0 THEN ":" \o ToString(g[2]) ELSE "") \o g[4]

AllDone(st) == \A c \in Clients : st.cl[c].st = "done"

(* the harness issues a call only when it makes sense: the bar it names exists, Wait comes after every Add *)
Eligible(st, c) ==
  LET op == Op(c, st) IN
  CASE op.op \in {"incr", "abort", "setcur", "settotal", "trigger", "refill", "get", "get1", "barwait", "prio"} -> op.b \in st.added
    [] op.op = "add" -> IF op.after = NoBar THEN TRUE ELSE op.after \in st.added
    [] op.op = "wait" ->   \* after every Add that precedes a Wait in its own program (later ones are late calls)
         \A d \in Clients : st.cl[d].st = "done" \/
            \A i \in st.cl[d].pc..Len(Prog[d]) :
               (Prog[d][i].op = "add") => \E j \in 1..(i - 1) : Prog[d][j].op = "wait"
    [] OTHER -> TRUE

Step == \E g \in Parked(s) :
          /\ s.panic = "none" /\ ~AllDone(s)
          /\ (IF g[1] = "cl" THEN Eligible(s, g[2]) ELSE TRUE)
          /\ s' \in Quiesce(Release(s, g))
          /\ last' = Label(g)

(* one refresh period passes: the ticker fires (its channel holds one tick; more are dropped) *)
AfterTick(st) == IF st.ls = "gone" THEN {st} ELSE Quiesce([st EXCEPT !.lsPend = TRUE])
Tick == /\ s.panic = "none" /\ ~AllDone(s)
        /\ Refresh = "auto" /\ s.ls # "gone" /\ ~s.lsPend /\ ~s.pctx /\ (MaxTicks < 0 \/ s.ticks < MaxTicks)
        /\ s' \in AfterTick(IF MaxTicks < 0 THEN s ELSE [s EXCEPT !.ticks = @ + 1])
        /\ last' = "tick"

Next == Step \/ Tick
Spec == Init /\ [][Next]_vars

(* a fair scheduler: every parked gate is eventually released, and time passes.  (A parked gate stays
   parked until it is released, so weak fairness per gate is enough.) *)
GateNames == {"cl", "pw:cancel", "ct:push", "ct:hm:sync", "ct:hm:iter", "ct:hm:state", "ct:hm:end", "ct:hm:fix", "ct:cancelbar",
              "ct:flush", "ct:io", "ct:drop", "ct:pcancel", "hm:req:push", "hm:req:sync", "hm:req:iter", "hm:req:state", "hm:req:end",
              "hm:req:fix", "hm:iter", "hm:pop", "ls:tick", "ls:done", "rg:start", "fmt:send", "bar:exit", "bar:cancel",
              "dist:start", "dist:mid", "er:start", "er:pump", "dp:send", "us:listen"}
AllGates == GateNames \X (0..NB) \X (0..4) \X {"", "p0", "p1", "a0", "a1"}
StepG(g) == /\ g \in Parked(s) /\ s.panic = "none" /\ ~AllDone(s)
            /\ (IF g[1] = "cl" THEN Eligible(s, g[2]) ELSE TRUE)
            /\ s' \in Quiesce(Release(s, g))
            /\ last' = Label(g)
FairSpec == Spec /\ WF_vars(Tick) /\ \A g \in AllGates : WF_vars(StepG(g))

(* ------------------------------------------------------------- properties *)
(* C14: Wait returns only after every shutdown listener that was started has returned *)
WaitReturned(st, c) == \E i \in 1..(st.cl[c].pc - 1) : Prog[c][i].op = "wait"
ListenersBeforeWait == \A c \in Clients : WaitReturned(s, c) => s.lsn = {}

NoPanic == s.panic = "none"                                                    \* C02

(* C01: a state in which nothing is parked, no tick can help and a call is still pending.  With the tick
   budget exhausted a pending call is not a hang: the budget is a bound of the model, not of the code. *)
Stuck == /\ ~AllDone(s) /\ Parked(s) = {} /\ s.panic = "none"
         /\ ~(Refresh = "auto" /\ s.ls = "idle" /\ ~s.pctx)
NoHang == ~Stuck

(* C05: a bar that exists and has not left the container is in exactly one place *)
Where(st, b) ==
    (IF \E i \in DOMAIN st.heap : st.heap[i] = b THEN 1 ELSE 0)
  + Cardinality({i \in DOMAIN st.hmbuf : st.hmbuf[i].cmd = "push" /\ st.hmbuf[i].b = b})
  + Cardinality({i \in DOMAIN st.hmblk : st.hmblk[i].req.cmd = "push" /\ st.hmblk[i].req.b = b})
  + Cardinality({i \in DOMAIN st.dp : st.dp[i].pc \in {"gate", "send"} /\ st.dp[i].req.b = b})
  + (IF st.hm.pc \in {"req_gate", "req_do"} /\ st.hm.req.cmd = "push" /\ st.hm.req.b = b THEN 1 ELSE 0)
  + (IF st.hm.pc \in {"pop_gate", "pop_do"} /\ st.hm.req.b = b THEN 1 ELSE 0)
  + (IF st.ct.b = b /\ st.ct.pc \in {"recv_frame", "cancel_gate", "cancel_do", "push_gate", "push_do"} /\ st.ct.then # "addreply" THEN 1 ELSE 0)
  + (IF st.ct.b = b /\ st.ct.pc \in {"push_gate", "push_do"} /\ st.ct.then = "addreply" THEN 1 ELSE 0)
  + Cardinality({p \in Bars : st.queue[p] = b})
NeverTwice == \A b \in Bars : s.bar[b].exists => Where(s, b) <= 1

(* C05: every frame shows each bar at most once *)
(* C06: rows are written in the order of the priorities the bars had when the frame was collected (the
   ordered iteration hands them over highest value first, the container reverses them), except in the
   frame that follows a lazy priority change *)
SortedFrames == s.out.exempt \/ \A i, j \in DOMAIN s.out.prios : i < j => s.out.prios[i] >= s.out.prios[j]

(* C18: the rows a frame pops out are its topmost rows (rows are collected bottom row first, so once a popped row has been
   collected every later one is popped too): the cursor is moved up by rows - popped before the next frame, which leaves
   exactly the topmost `popped` lines on the screen for good *)
PoppedOnTop == \A i, j \in DOMAIN s.out.popm : (i < j /\ s.out.popm[i]) => s.out.popm[j]

NoDupInFrame == \A i, j \in DOMAIN s.out.rows : i # j => s.out.rows[i] # s.out.rows[j]

(* C13: accepted text is written at most once and never invented *)
TextAtMostOnce == s.written + s.cw = s.accepted
(* C13 / C03: when every call has returned, all accepted text has been written *)
TextWritten == (AllDone(s) /\ s.panic = "none" /\ ~s.err /\ Refresh = "auto") => s.written = s.accepted

(* C16: when every call has returned, no library goroutine is left that can never finish *)
Quiescent == (AllDone(s) /\ s.panic = "none") =>
               /\ s.ct.pc = "gone" /\ s.ls = "gone"
               /\ \A b \in Bars : s.bar[b].exists => s.bar[b].pc = "gone" /\ s.bar[b].rd = "none"
               /\ s.hmblk = <<>> /\ s.drain # "run"

(* C15: a render error is reported exactly once, and no frame follows it *)
ErrorReportedOnce == (AllDone(s) /\ s.panic = "none") => s.debug = (IF s.err THEN 1 ELSE 0)
NoRenderAfterError == s.err => s.ct.pc \in {"pcancel_gate", "pcancel_do", "err_wait", "hm_gate", "hm_do", "hm_blocked", "hm_sent", "gone"}

(* C01 as liveness (fair scheduler): every call returns *)
Termination == <>(AllDone(s) \/ s.panic # "none")
=============================================================================
