------------------------------- MODULE MPBSim -------------------------------
(* MPBCore with a history of step labels, for TLC -simulate: every behaviour that ends (all calls
   returned, a panic, or a stuck state) is printed as a gate schedule for the replay harness. *)
EXTENDS MPBCore

VARIABLE hist
SimInit == Init /\ hist = <<>>
SimNext == Next /\ hist' = Append(hist, last')
SimSpec == SimInit /\ [][SimNext]_<<s, last, hist>>

(* Schedules the harness can follow to the end: a step is taken only when it has a single outcome, i.e. no select
   with several ready cases is resolved by the Go runtime on the way (the gate scheduler controls which goroutine
   moves, not which case a select takes).  When every enabled step branches, any step is allowed. *)
OneOutcome(g) == /\ (IF g[1] = "cl" THEN Eligible(s, g[2]) ELSE TRUE)
                 /\ Cardinality(Quiesce(Release(s, g))) = 1
TickState == IF MaxTicks < 0 THEN s ELSE [s EXCEPT !.ticks = @ + 1]
DetStep == \E g \in Parked(s) :
             /\ s.panic = "none" /\ ~AllDone(s)
             /\ OneOutcome(g)
             /\ s' \in Quiesce(Release(s, g))
             /\ last' = Label(g)
TickOK == /\ s.panic = "none" /\ ~AllDone(s)
          /\ Refresh = "auto" /\ s.ls # "gone" /\ ~s.lsPend /\ ~s.pctx /\ (MaxTicks < 0 \/ s.ticks < MaxTicks)
DetTick == /\ TickOK /\ Cardinality(AfterTick(TickState)) = 1 /\ Tick
HasDet == /\ s.panic = "none" /\ ~AllDone(s)
          /\ \/ \E g \in Parked(s) : OneOutcome(g)
             \/ (TickOK /\ Cardinality(AfterTick(TickState)) = 1)
DetNext == (IF HasDet THEN DetStep \/ DetTick ELSE Next) /\ hist' = Append(hist, last')
SimSpecDet == SimInit /\ [][DetNext]_<<s, last, hist>>
(* calm variant: additionally keep at most one goroutine waiting for the container (and for each bar), so that no
   select finds two ready cases later on *)
CtSenders(st) == Cardinality({c \in Clients : st.cl[c].st \in {"sendct", "sendio"}})
                 + Cardinality({k \in DOMAIN st.er : st.er[k].pc \in {"trav_send", "pump_send"}})
                 + (IF st.ls = "tick_send" THEN 1 ELSE 0)
BarSenders(st, b) == Cardinality({c \in Clients : st.cl[c].st \in {"sendbar", "get"} /\ Op(c, st).b = b})
                     + (IF st.bar[b].rg = "handoff" THEN 1 ELSE 0)
                     + (IF st.bar[b].ctx /\ st.bar[b].pc = "idle" THEN 1 ELSE 0)
Calm(st) == CtSenders(st) <= 1 /\ \A b \in Bars : BarSenders(st, b) <= 1
CalmOutcome(g) == OneOutcome(g) /\ \A t \in Quiesce(Release(s, g)) : Calm(t)
CalmStep == \E g \in Parked(s) :
             /\ s.panic = "none" /\ ~AllDone(s)
             /\ CalmOutcome(g)
             /\ s' \in Quiesce(Release(s, g))
             /\ last' = Label(g)
CalmTickOK == TickOK /\ s.ls = "idle" /\ Cardinality(AfterTick(TickState)) = 1 /\ \A t \in AfterTick(TickState) : Calm(t)
CalmTick == CalmTickOK /\ Tick
HasCalm == /\ s.panic = "none" /\ ~AllDone(s)
           /\ ((\E g \in Parked(s) : CalmOutcome(g)) \/ CalmTickOK)
CalmNext == (IF HasCalm THEN CalmStep \/ CalmTick ELSE IF HasDet THEN DetStep \/ DetTick ELSE Next) /\ hist' = Append(hist, last')
SimSpecCalm == SimInit /\ [][CalmNext]_<<s, last, hist>>
(* strict variant: a behaviour ends where every enabled step branches (it is then not printed) *)
StrictNext == (DetStep \/ DetTick) /\ hist' = Append(hist, last')
SimSpecStrict == SimInit /\ [][StrictNext]_<<s, last, hist>>

Outcome == IF s.panic # "none" THEN "panic" ELSE IF AllDone(s) THEN "done" ELSE IF Stuck THEN "stuck" ELSE "open"
Emit == (Outcome # "open") => PrintT(<<"SCHED", Outcome, hist>>)
=============================================================================
