------------------------------- MODULE MPBSim -------------------------------
(* MPBCore with a history of step labels, for TLC -simulate: every behaviour that ends (all calls
   returned, a panic, or a stuck state) is printed as a gate schedule for the replay harness. *)
EXTENDS MPBCore

VARIABLE hist
SimInit == Init /\ hist = <<>>
SimNext == Next /\ hist' = Append(hist, last')
SimSpec == SimInit /\ [][SimNext]_<<s, last, hist>>

Outcome == IF s.panic # "none" THEN "panic" ELSE IF AllDone(s) THEN "done" ELSE IF Stuck THEN "stuck" ELSE "open"
Emit == (Outcome # "open") => PrintT(<<"SCHED", Outcome, hist>>)
=============================================================================
