------------------------------ MODULE MPBTrace ------------------------------
(***************************************************************************)
(* Trace validation of MPBCore: gate traces recorded from the real library *)
(* (one event per scheduler step: the gate released, and the multiset of   *)
(* gates parked once everything has come to rest) must be behaviours of    *)
(* the specification.  The specification's own nondeterminism (selects     *)
(* with several ready cases) is resolved by the search; the recorded       *)
(* parked set prunes it.  Several traces of the same configuration are     *)
(* checked in one run: from any position the search may skip to the next   *)
(* trace, and a register remembers which traces were matched to their end. *)
(***************************************************************************)
EXTENDS MPBCore, Json, IOUtils

Trace == ndJsonDeserialize(IOEnv.CORE_TRACE)
N == IF Len(Trace) = 0 THEN 0 ELSE Trace[Len(Trace)].ti

VARIABLE l
tvars == <<s, last, l>>

RECURSIVE CountOf(_, _, _)
CountOf(q, x, i) == IF i > Len(q) THEN 0 ELSE (IF q[i] = x THEN 1 ELSE 0) + CountOf(q, x, i + 1)
SameBag(P, q) ==   \* P: set of parked triples of the model;  q: sequence of labels recorded
  /\ Cardinality(P) = Len(q)
  /\ \A g \in P : Cardinality({h \in P : Label(h) = Label(g)}) = CountOf(q, Label(g), 1)

TInit == /\ \A i \in 1..N : TLCSet(i, FALSE)
         /\ TLCSet(N + 1, 0)
         /\ s = Init0 /\ last = "init" /\ l = 1

LastOfTrace(i) == i = Len(Trace) \/ Trace[i + 1].ti # Trace[i].ti

Match ==
  /\ l <= Len(Trace)
  /\ LET e  == Trace[l]
         s0 == IF e.first THEN Init0 ELSE s IN
     /\ \/ /\ e.g = "tick"
           /\ s' \in AfterTick(s0)
        \/ /\ e.g # "tick"
           /\ \E g \in Parked(s0) : Label(g) = e.g /\ s' \in Quiesce(Release(s0, g))
     /\ SameBag(Parked(s'), e.parked)
     /\ last' = e.g
     /\ (IF LastOfTrace(l) THEN TLCSet(e.ti, TRUE) ELSE TRUE)
     /\ (IF TLCGet(N + 1) < l THEN TLCSet(N + 1, l) ELSE TRUE)
  /\ l' = l + 1

(* give up on the current trace and go on with the next one *)
Skip ==
  /\ l <= Len(Trace)
  /\ LET nxt == {i \in (l + 1)..Len(Trace) : Trace[i].first} IN
       l' = IF nxt = {} THEN Len(Trace) + 1 ELSE CHOOSE i \in nxt : \A j \in nxt : i <= j
  /\ s' = Init0 /\ last' = "skip"

(* debugging aid: at position CORE_DEBUG print what the specification would have parked after the recorded step *)
DebugAt == IF "CORE_DEBUG" \in DOMAIN IOEnv THEN IOEnv.CORE_DEBUG ELSE "0"
Debug ==
  /\ ToString(l) = DebugAt /\ l <= Len(Trace)
  /\ LET e == Trace[l] IN
       /\ PrintT(<<"DEBUG", l, e.g, "recorded", e.parked, "model parked now", {Label(g) : g \in Parked(s)}>>)
       /\ \A g \in {h \in Parked(s) : Label(h) = e.g} :
             \A t \in Quiesce(Release(s, g)) : PrintT(<<"DEBUG-SUCC", {<<Label(h), h[3]>> : h \in Parked(t)}>>)
  /\ UNCHANGED tvars

TNext == Match \/ Skip \/ Debug
TSpec == TInit /\ [][TNext]_tvars

Report == /\ JsonSerialize(IOEnv.CORE_OUT, [accepted |-> [i \in 1..N |-> TLCGet(i)], n |-> N, matched |-> TLCGet(N + 1)])
          /\ PrintT(<<"TRACE-RESULT", N, Cardinality({i \in 1..N : TLCGet(i)})>>)
=============================================================================
