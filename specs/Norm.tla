-------------------------------- MODULE Norm --------------------------------
(***************************************************************************)
(* decor/eta.go, FixedIntervalTimeNormalizer(par) ("fixed") and            *)
(* MaxTolerateTimeNormalizer(par s) ("tol"): one Normalize(rem) call, dt   *)
(* after the call before, on the closure's variables count and val      *)
(* (seconds).  Decor.tla enumerates call sequences with these operators    *)
(* (TLC) and replays them on the code; NormInd.tla has them for every      *)
(* integer (Apalache).                                                     *)
(***************************************************************************)
EXTENDS Integers

\* the call looks at the raw estimate (and shows it)
NormLook(which, par, count, val, rem) ==
  IF which = "fixed" THEN count = 0 \/ rem < 60
  ELSE (val - rem <= 0) \/ (val - rem > par) \/ rem < 60

NormOut(which, par, count, val, rem, dt) ==
  IF NormLook(which, par, count, val, rem) THEN rem
  ELSE IF val - dt > 0 THEN val - dt ELSE rem

NormCount(which, par, count, val, rem) ==
  IF which # "fixed" THEN 0 ELSE IF NormLook(which, par, count, val, rem) THEN par ELSE count - 1

NormVal(which, par, count, val, rem, dt) ==
  IF NormLook(which, par, count, val, rem) THEN rem ELSE val - dt
=============================================================================
