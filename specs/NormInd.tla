------------------------------- MODULE NormInd -------------------------------
(***************************************************************************)
(* The time normalizers of Norm.tla for EVERY estimate, interval and       *)
(* parameter (C20).  Apalache, unbounded integers:                         *)
(*   --init=NInit   --inv=NInv --length=0    the fresh closure satisfies it *)
(*   --init=IndInit --inv=NInv --length=1    every call preserves it        *)
(*   --init=IndInit --inv=Act* --length=1    what a call shows              *)
(***************************************************************************)
EXTENDS Norm

VARIABLES
  \* @type: Str;
  which,
  \* @type: Int;
  par,
  \* @type: Int;
  count,
  \* @type: Int;
  val,
  \* @type: Int;
  base,      \* history: the raw estimate last looked at
  \* @type: Int;
  since,     \* history: time since then
  \* @type: Int;
  run,       \* history: calls since then
  \* @type: Int;
  rem,       \* the last call's argument and result
  \* @type: Int;
  out

NInit == /\ which \in {"fixed", "tol"} /\ par \in Int /\ par >= 0
         /\ count = 0 /\ val = 0 /\ base = 0 /\ since = 0 /\ run = 0 /\ rem = 0 /\ out = 0

NNext == \E r \in Int, dt \in Int :
           /\ r >= 0 /\ dt >= 0
           /\ rem' = r
           /\ out' = NormOut(which, par, count, val, r, dt)
           /\ count' = NormCount(which, par, count, val, r)
           /\ val' = NormVal(which, par, count, val, r, dt)
           /\ IF NormLook(which, par, count, val, r)
              THEN base' = r /\ since' = 0 /\ run' = 0
              ELSE base' = base /\ since' = since + dt /\ run' = run + 1
           /\ UNCHANGED <<which, par>>

NInv == /\ which \in {"fixed", "tol"} /\ par \in Int /\ par >= 0
        /\ count \in Int /\ val \in Int /\ base \in Int /\ since \in Int /\ run \in Int /\ rem \in Int /\ out \in Int
        /\ since >= 0 /\ run >= 0 /\ base >= 0
        /\ val = base - since                                  \* the countdown
        /\ (which = "fixed" => (count >= 0 /\ count + run = par) \/ (run = 0 /\ count = 0 /\ base = 0 /\ since = 0))
IndInit == NInv

\* what a call shows
ActExactBelowMinute == rem' < 60 => out' = rem'
ActCountsDown == out' = rem' \/ (out' = base' - since' /\ out' > 0)
ActPositive == (rem' > 0 => out' > 0) /\ out' >= 0
ActFresh == which = "fixed" => run' <= par
ActTolerant == which = "tol" => out' - rem' <= par
\* not a property: Apalache must refute it (the run is not vacuous)
ActTolerantStrict == which = "tol" => out' - rem' < par
=============================================================================
