SPECIFICATION Spec
CHECK_DEADLOCK FALSE
POSTCONDITION Consumed
