------------------------------- MODULE Obs -------------------------------
(***************************************************************************)
(* Observable-level specification of an mpb container: what a *user* can   *)
(* see of it.  The module is a total monitor over the events recorded from *)
(* executions of the real library (API invocations and returns, every      *)
(* Write on the output parsed into a frame, decorator and filler           *)
(* call-backs, the shutdown notifier, hang / leak / panic reports).  Each  *)
(* rule is one clause of one of the properties C01..C18; a broken rule is  *)
(* appended to `bad' together with the trace id, so that one TLC run       *)
(* judges a batch of traces.  No internal identifier of the library        *)
(* occurs here: the monitor survives refactoring.                          *)
(***************************************************************************)
EXTENDS Integers, Sequences, FiniteSets, TLC, Json, IOUtils, SequencesExt, FiniteSetsExt, Functions

Trace == ndJsonDeserialize(IOEnv.OBS_TRACE)

VARIABLES l, st, bad
vars == <<l, st, bad>>

---------------------------------------------------------------------------
(* helpers *)
Has(e, f)   == f \in DOMAIN e
Range_(s)   == {s[i] : i \in DOMAIN s}
Names(gs)   == [i \in DOMAIN gs |-> gs[i].b]
NameSet(gs) == {gs[i].b : i \in DOMAIN gs}
IndexOf(s, x) == CHOOSE i \in DOMAIN s : s[i] = x
MaxOf(S)    == CHOOSE x \in S : \A y \in S : y <= x
Terminal(fl) == fl # "-"

B(p, r, e, info) == [p |-> p, r |-> r, tr |-> st.tr, seq |-> e.seq, info |-> info]

EmptyF == [x \in {} |-> 0]

Init0 == [
  tr       |-> "none",
  cfg      |-> [refresh |-> "auto", pop |-> FALSE, q |-> 0, notifier |-> FALSE, width |-> 0, delay |-> FALSE,
                outfault |-> 0, ctx |-> FALSE, autotoo |-> FALSE, narrow |-> FALSE, uwg |-> FALSE],
  family   |-> "",
  bars     |-> EmptyF,   \* name -> what the client asked for and what Add returned
  created  |-> <<>>,     \* bars in creation order (the default priority)
  frames   |-> <<>>,     \* every frame written so far
  cyc      |-> 0,        \* seq number of the latest render-cycle start
  prio     |-> EmptyF,   \* bar -> priority the documentation promises for the next cycle
  lazy     |-> FALSE,    \* a lazy priority change has returned since the last cycle began
  prioLost |-> FALSE,    \* a priority change raced with cancellation: it may or may not have been applied
  shown    |-> {},       \* bars that appeared in some frame
  gone     |-> {},       \* bars that appeared and were then absent from a later frame
  termSeen |-> {},       \* bars that some frame or getter has shown in a terminal state
  termCnt  |-> EmptyF,   \* bar -> number of frames that showed it in a terminal state
  lateSucc |-> {},       \* bars created behind a predecessor that had already been drawn twice in its terminal state
  compSeen |-> {},       \* bars some getter reported completed
  compShown |-> {},      \* bars some frame or getter has shown completed
  abrtSeen |-> {},       \* bars some getter reported aborted
  dropped  |-> {},       \* bars on which Abort(drop=true) has returned
  aborts   |-> EmptyF,   \* bar -> set of drop flags of the Abort calls issued while the container was live
  abortNoop |-> {},      \* <<client, index>> of Abort calls invoked on a bar already known to be completed
  abortsU  |-> EmptyF,   \* ... of those that returned after a cancellation / Shutdown was requested: the bar may already have
                         \*     been aborted by its context, in which case the call had no effect
  prioAt   |-> EmptyF,   \* bar -> seq of the latest priority change that returned
  prioInv  |-> EmptyF,   \* <<client, index>> of a priority change in flight -> seq of its invocation
  prioCalls |-> {},      \* <<bar, inv, ret>> of every priority change that returned while the container was live
  stopReq  |-> FALSE,    \* the program asked for cancellation / Shutdown
  closing  |-> FALSE,    \* some Wait has passed its barrier and is cancelling the container
  waitInv  |-> 0,
  doneAt   |-> 0,        \* seq of the first return of Wait or Shutdown (0 = none)
  waitAt   |-> 0,        \* seq of the first return of Wait
  writes   |-> <<>>,     \* Progress.Write calls: [line, inv, ret, ok]
  texts    |-> <<>>,     \* text lines in the order the output shows them: [line, frame]
  nreq     |-> 0,        \* render requests the refresh listener has set out to hand to the container
  ncyc     |-> 0,        \* render cycles begun
  topen    |-> 0,        \* lines the output has begun and not yet ended with a line feed
  wpartial |-> FALSE,    \* a line whose text was accepted and whose line feed was rejected (the container ended in between)
  fmts     |-> <<>>,     \* width exchanges of the frame being drawn
  final    |-> EmptyF,   \* bar -> getter result read after the container was done
  listens  |-> EmptyF,   \* decorator -> number of OnShutdown calls
  ewmas    |-> EmptyF,   \* decorator -> number of EwmaUpdate calls
  fault    |-> FALSE,
  faultAt  |-> 0,
  faultBar |-> "",       \* the bar whose filler / extender failed ("" for an output error)
  debug    |-> 0,
  notifies |-> <<>>,
  hung     |-> FALSE,
  detached |-> {},       \* bars whose push back into the container travelled outside the queue (n > q)
  detachedF |-> {},      \* ... since the frame before the previous one
  curLB    |-> EmptyF,   \* bar -> what the positive increments that have returned add up to
  spoiled  |-> {},       \* bars on which something other than a positive increment has been invoked (or any bar once a stop or fault happened)
  mustComplete |-> {},   \* bars that are certainly completed
  curUB    |-> EmptyF,   \* bar -> upper bound of its counter: everything the increments and SetCurrent calls issued so far could add up to
  renderStarted |-> TRUE
]

---------------------------------------------------------------------------
(* What may be absent.  A bar may leave the display only once it is known  *)
(* to be terminal and it was configured (or asked) to leave.               *)
HasSucc(s, b) == \E x \in DOMAIN s.bars : s.bars[x].after = b /\ s.bars[x].ok
(* May a terminal bar leave the display?  Remove-on-complete applies unless an Abort(false) reset it; the reset
   only happens when that Abort took effect, i.e. the bar is not known to have completed. *)
AbortFlags(s, b) == IF b \in DOMAIN s.aborts THEN s.aborts[b] ELSE {}
AbortFlagsU(s, b) == IF b \in DOMAIN s.abortsU THEN s.abortsU[b] ELSE {}
Leaves(s, b)  == \/ (s.bars[b].rm /\ (FALSE \notin AbortFlags(s, b) \/ b \in s.compShown))
                 \/ b \in s.dropped
                 \/ (s.cfg.pop /\ ~s.bars[b].nopop)
                 \/ HasSucc(s, b)
Queued(s, b)  == s.bars[b].after # ""
(* pop-completed mode wins over removal: a bar that can be popped is popped *)
Poppable(s, b) == s.cfg.pop /\ ~s.bars[b].nopop /\ ~HasSucc(s, b)
(* A bar is certainly removed when it ended the way that asks for removal: completed with   *)
(* the remove-on-complete option, or aborted when every Abort issued asked for the drop     *)
(* (Abort(false) resets the option; with mixed calls the effective one is not observable).  *)
Removed(s, b)  == /\ b \in DOMAIN s.final /\ ~Poppable(s, b) /\ ~HasSucc(s, b)
                  /\ LET ab == AbortFlags(s, b)
                         all == ab \cup AbortFlagsU(s, b) IN
                     \* every way the calls can have played out asks for removal
                     IF s.final[b].aborted THEN all \subseteq {TRUE} /\ (ab # {} \/ s.bars[b].rm)
                     ELSE s.bars[b].rm /\ FALSE \notin all

---------------------------------------------------------------------------
(* Mechanisms of the recorded findings.  A rule whose violation coincides with one of them  *)
(* is reported under a name that carries the mechanism, so that the findings file can list  *)
(* it precisely; the same rule failing without the mechanism keeps its plain name.          *)
Dp(s, bs) == IF bs \subseteq s.detached THEN "/detached-push" ELSE ""
DpAny(s)  == IF s.detached # {} THEN "/detached-push" ELSE ""
Orphans(s) == {b \in DOMAIN s.bars : s.bars[b].ok /\ s.bars[b].after # "" /\ b \notin s.shown
                                     /\ s.bars[b].after \in s.termSeen}
Doubles(s) == {b \in DOMAIN s.bars : s.bars[b].ok /\ s.bars[b].after # "" /\
                  \E c \in DOMAIN s.bars : c # b /\ s.bars[c].ok /\ s.bars[c].after = s.bars[b].after}
(* bars that can never get their turn because of a recorded mechanism: a second successor, a late successor, or
   (transitively) a bar queued behind one of those *)
RECURSIVE Behind(_, _, _)
Behind(s, S, n) == IF n = 0 THEN S
                   ELSE Behind(s, S \cup {b \in DOMAIN s.bars : s.bars[b].ok /\ s.bars[b].after \in S}, n - 1)
Doomed(s) == Behind(s, Doubles(s) \cup s.lateSucc, Cardinality(DOMAIN s.bars))
SyncBars(s) == {b \in DOMAIN s.bars : s.bars[b].nsync > 0}

(* frame rules, evaluated when a frame is written *)

PrevGroups(s) == IF s.frames = <<>> THEN <<>> ELSE s.frames[Len(s.frames)].groups

FrameRules(s, e) ==
  LET gs    == e.groups
      names == Names(gs)
      cur   == NameSet(gs)
      prev  == NameSet(PrevGroups(s))
      k     == Len(s.frames) + 1
  IN
  \* C05: no bar twice in one frame
  (IF Cardinality(cur) # Len(gs) THEN <<B("C05", "dup-in-frame", e, ToString(names))>> ELSE <<>>)
  \* C05: a bar that vanished never comes back
  \o (IF cur \cap s.gone # {} THEN <<B("C05", "reappears" \o Dp(s, cur \cap s.gone), e, ToString(cur \cap s.gone))>> ELSE <<>>)
  \* C05: every bar added before the cycle began is drawn, unless it was allowed to leave
  \*      or is waiting behind a predecessor
  \o (LET must == {b \in DOMAIN s.bars :
                      /\ s.bars[b].ok /\ s.bars[b].ret # 0 /\ s.bars[b].ret < s.cyc
                      /\ ~Queued(s, b)
                      /\ ~(b \in s.termSeen /\ Leaves(s, b))}
          miss == must \ cur
      IN IF miss # {} /\ ~s.fault THEN <<B("C05", "missing" \o Dp(s, miss), e, ToString(miss))>> ELSE <<>>)
  \* C05/C17: unknown bars never show up
  \o (IF cur \ DOMAIN s.bars # {} THEN <<B("C05", "unknown-bar", e, ToString(cur \ DOMAIN s.bars))>> ELSE <<>>)
  \* C17: a queued bar is not displayed together with its predecessor
  \o (LET both == {b \in cur \cap DOMAIN s.bars : s.bars[b].after # "" /\ s.bars[b].after \in cur}
      IN IF both # {} THEN <<B("C17,C05", "with-predecessor", e, ToString(both))>> ELSE <<>>)   \* (C05: a frame holds the bars that are not left waiting, and only those)
  \* C17: when the predecessor has left, the successor that was created before the
  \*      predecessor's last cycle began is displayed at once
  \o (LET late == {b \in DOMAIN s.bars :
                     /\ s.bars[b].ok /\ s.bars[b].after # ""
                     /\ s.bars[b].after \in prev /\ s.bars[b].after \notin cur
                     /\ s.bars[b].ret # 0 /\ s.frames # <<>> /\ s.bars[b].ret < s.frames[Len(s.frames)].cyc
                     /\ b \notin cur /\ b \notin s.gone}
      IN IF late # {} /\ ~s.fault
         THEN <<B("C17", "successor-not-shown" \o (IF late \subseteq Doubles(s) THEN "/two-successors"
                                                    ELSE IF late \subseteq Doomed(s) THEN "/late-successor"
                                                    ELSE ""), e, ToString(late))>>
         ELSE <<>>)
  \* C11: no row reports both terminal states
  \o (LET both == {i \in DOMAIN gs : gs[i].fl = "CA"}
      IN IF both # {} THEN <<B("C11", "row-completed-and-aborted", e, ToString({gs[i].b : i \in both}))>> ELSE <<>>)
  \* C11/C03: a row once terminal stays in that terminal state
  \o (LET flip == {i \in DOMAIN gs : \E j \in DOMAIN PrevGroups(s) :
                      /\ PrevGroups(s)[j].b = gs[i].b /\ Terminal(PrevGroups(s)[j].fl)
                      /\ PrevGroups(s)[j].fl # gs[i].fl}
      IN IF flip # {} THEN <<B("C11,C09", "row-terminal-state-changed", e, ToString({gs[i].b : i \in flip}))>> ELSE <<>>)
  \* C09/C03: a completed row shows current = total
  \o (LET odd == {i \in DOMAIN gs : gs[i].fl = "C" /\ gs[i].cur # gs[i].tot}
      IN IF odd # {} THEN <<B("C03", "completed-row-not-full", e, ToString({gs[i].b : i \in odd}))>> ELSE <<>>)
  \* C04/C03/C18: a displayed bar is displayed with all the rows of its group (the bar row and every
  \*      complete line its extender wrote); the programs keep every frame within the height limit
  \o (LET short == {i \in DOMAIN gs : gs[i].b \in DOMAIN s.bars /\ gs[i].ext # s.bars[gs[i].b].ext}
      IN IF short # {} THEN <<B("C04,C03,C18", "row-group-incomplete", e, ToString({gs[i].b : i \in short}))>> ELSE <<>>)
  \* C03: the decorations of a row match the state the row reports: the message of the outermost wrapper that
  \*      reacts to that state stands in for the decorator, otherwise the decorator itself is drawn
  \o (LET Wr(b, d) == LET ws == {i \in DOMAIN s.bars[b].wraps : s.bars[b].wraps[i].d = d}
                      IN IF ws = {} THEN <<>> ELSE s.bars[b].wraps[CHOOSE i \in ws : TRUE].w
          Reacts(w, fl) == \/ (w \in {"oncomplete", "oncomplete0"} /\ fl = "C") \/ (w \in {"onabort", "onabort0"} /\ fl = "A")
                           \/ (w = "either" /\ fl \in {"C", "A"})
          \* (a wrapper with an empty message clears the decorator: nothing is drawn, so nothing is compared)
          Sfx(w) == IF w = "oncomplete" THEN "C" ELSE IF w = "onabort" THEN "A" ELSE IF w = "either" THEN "E" ELSE "cleared"
          Want(b, d, fl) == LET w == Wr(b, d)
                                hit == {m \in DOMAIN w : Reacts(w[m], fl)}
                            IN IF hit = {} THEN "" ELSE Sfx(w[MaxOf(hit)])     \* wrappers are listed innermost first
          Toks(g) == [i \in 1..(Len(g.pre) + Len(g.app)) |-> IF i <= Len(g.pre) THEN g.pre[i] ELSE g.app[i - Len(g.pre)]]
          odd == {i \in DOMAIN gs : gs[i].b \in DOMAIN s.bars /\ gs[i].fl \in {"-", "C", "A"} /\
                     \E n \in DOMAIN Toks(gs[i]) : Toks(gs[i])[n].sfx # Want(gs[i].b, Toks(gs[i])[n].d, gs[i].fl)}
      IN IF odd # {} THEN <<B("C03", "decoration-does-not-match-state", e, ToString({gs[i].b : i \in odd}))>> ELSE <<>>)
  \* C03/C05/C18: a finished bar that has to leave is drawn in its terminal state twice (three times when it is popped:
  \*      the third time on top) and then no more, in every refresh mode
  \o (LET tb == {gs[i].b : i \in {j \in DOMAIN gs : Terminal(gs[j].fl) /\ gs[j].b \in DOMAIN s.bars}}
          Cnt(b) == (IF b \in DOMAIN s.termCnt THEN s.termCnt[b] ELSE 0) + 1
          NoAbort(b) == AbortFlags(s, b) = {} /\ AbortFlagsU(s, b) = {} /\ b \notin s.dropped
          MustGo(b) == \/ (s.cfg.pop /\ ~s.bars[b].nopop)
                       \/ (s.bars[b].rm /\ NoAbort(b) /\ b \in s.compShown)
          late == {b \in tb : MustGo(b) /\ s.detached = {} /\ Cnt(b) > (IF s.cfg.pop /\ ~s.bars[b].nopop THEN 3 ELSE 2)}
      IN IF late # {} /\ ~s.fault THEN <<B("C03,C05,C18", "finished-bar-not-retired", e, ToString(late))>> ELSE <<>>)
  \* C07: no row wider than the terminal
  \o (IF s.cfg.width > 0 /\ e.maxw > s.cfg.width THEN <<B("C07", "row-too-wide", e, ToString(e.maxw))>> ELSE <<>>)
  \* C04/C13: grammar of a frame
  \o (IF e.malformed # <<>> THEN <<B("C13,C04,C18", "malformed-frame", e, ToString(e.malformed))>> ELSE <<>>)
  \* C13: the bytes of the text are the bytes written: a line feed ends a line that was begun, nothing else
  \*      (a container with a render delay discards what is written before the delay ends: not judged)
  \o (IF s.topen + e.ttok - e.tnl < 0 /\ ~s.cfg.delay THEN <<B("C13", "text-bytes-altered", e, "line feed that nobody wrote")>> ELSE <<>>)
  \* C03: nothing is written after Wait has returned
  \o (IF s.waitAt # 0 THEN <<B("C03", "write-after-wait", e, "frame")>> ELSE <<>>)
  \* C15: no frame after a render error
  \o (IF s.fault THEN <<B("C15", "frame-after-error", e, "frame")>> ELSE <<>>)
  \* C04: nothing before the render delay ends
  \o (IF ~s.renderStarted THEN <<B("C04", "output-before-delay-end", e, "frame")>> ELSE <<>>)
  \* C04: a container that does not refresh writes nothing
  \o (IF s.cfg.refresh = "none" THEN <<B("C04", "output-without-refresh", e, "frame")>> ELSE <<>>)

(* C12: the width exchanges of the frame just drawn *)
SyncRules(s, e) ==
  LET fs   == s.fmts
      cur  == NameSet(e.groups)
      mine == {i \in DOMAIN fs : fs[i].sync /\ fs[i].b \in cur}
      cols == {<<fs[i].side, fs[i].col>> : i \in mine}
      InCol(c) == {i \in mine : fs[i].side = c[1] /\ fs[i].col = c[2]}
      badc == {c \in cols : \E i \in InCol(c) : fs[i].got # MaxOf({fs[j].need : j \in InCol(c)})}
      \* an unsynchronised decorator gets exactly what it needs
      badu == {i \in DOMAIN fs : ~fs[i].sync /\ fs[i].got # fs[i].need}
      \* the string handed back has the width reported
      bads == {i \in DOMAIN fs : fs[i].strw # fs[i].got}
  IN (IF badc # {} /\ ~s.fault THEN <<B("C12", "column-width", e, ToString(badc))>> ELSE <<>>)
     \o (IF badu # {} THEN <<B("C12", "plain-width", e, ToString({fs[i].d : i \in badu}))>> ELSE <<>>)
     \* (for a synchronised decorator that is C12 as well: the column is as wide as the strings in it are on the screen)
     \o (IF bads # {} THEN <<B(IF \E i \in bads : fs[i].sync THEN "C07,C12" ELSE "C07", "decorator-width-report", e, ToString({fs[i].d : i \in bads}))>> ELSE <<>>)

(* C12 on the text itself: the decorated sections of the rows line up.  The
   prepend section of a row is as wide as the widths handed to its decorators. *)
AlignRules(s, e) ==
  LET fs == s.fmts
      W(b, side) == LET idx == {i \in DOMAIN fs : fs[i].b = b /\ fs[i].side = side}
                    IN  [n |-> Cardinality(idx), w |-> FoldSet(LAMBDA i, acc : acc + fs[i].got, 0, idx)]
      off == {i \in DOMAIN e.groups :
                 LET g == e.groups[i] IN
                 /\ g.b \in DOMAIN s.bars
                 /\ W(g.b, "p").n = s.bars[g.b].npre
                 /\ g.prew # W(g.b, "p").w + (IF s.bars[g.b].trim THEN 0 ELSE 1)
                 /\ g.w < s.cfg.width}
  IN IF off # {} /\ ~s.fault THEN <<B("C12", "row-misaligned", e, ToString({e.groups[i].b : i \in off}))>> ELSE <<>>

---------------------------------------------------------------------------
NormalEnd(s) == s.waitAt # 0 /\ ~s.stopReq /\ ~s.fault /\ ~s.hung
(* an auto-refreshing container that ends by Wait renders until nothing changes any more *)
FinalRendered(s) == NormalEnd(s) /\ s.cfg.refresh = "auto" /\ s.renderStarted

(* priorities (C06), evaluated on the stored frames at the end of a trace *)
OrderRules(s, e) ==
  LET F == s.frames
      LastOf(b) == MaxOf({k \in DOMAIN F : b \in NameSet(F[k].groups)})
      \* a bar popped out is drawn one last time, above the running bars
      \* (a successor takes the bar's place instead - but only one that was registered when the frame before was
      \* flushed: certainly so if its Add had returned before that cycle began, possibly if its Add had been invoked
      \* before the pop frame was written)
      CertainSucc(k, b) == k > 1 /\ \E x \in DOMAIN s.bars : s.bars[x].after = b /\ s.bars[x].ok /\ s.bars[x].ret # 0
                                                               /\ s.bars[x].ret < F[k - 1].cyc
      PossibleSucc(k, b) == \E x \in DOMAIN s.bars : s.bars[x].after = b /\ s.bars[x].inv < F[k].seq
      PopCfg(b) == b \in DOMAIN s.bars /\ s.cfg.pop /\ ~s.bars[b].nopop
      MaybePopping(k, b) == PopCfg(b) /\ ~CertainSucc(k, b) /\ LastOf(b) = k
      Popping(k, b) == PopCfg(b) /\ ~PossibleSucc(k, b) /\ LastOf(b) = k /\ (k < Len(F) \/ FinalRendered(s))
      \* a priority change that returned after the bar's previous frame and before its pop frame
      \* (a call takes effect somewhere between its invocation and its return)
      PrioRace(k, b) == k > 1 /\ \E c \in s.prioCalls : c[1] = b /\ c[2] < F[k].seq /\ c[3] > F[k - 1].seq
      IsSucc(b) == b \in DOMAIN s.bars /\ s.bars[b].after # ""
      Badk(succ) == {k \in DOMAIN F :
                 /\ ~F[k].exempt
                 /\ \E i \in 1..(Len(F[k].groups) - 1) :
                      LET x == F[k].groups[i].b  y == F[k].groups[i + 1].b IN
                      /\ x \in DOMAIN F[k].prio /\ y \in DOMAIN F[k].prio
                      /\ ~MaybePopping(k, x) /\ ~MaybePopping(k, y)
                      /\ F[k].prio[x] > F[k].prio[y]
                      /\ (IsSucc(x) \/ IsSucc(y)) = succ}
      \* (finding F12: the pop priorities start at math.MinInt32; a bar whose own priority is below that - the harness
      \* writes -(2^30) for math.MinInt - stays above the popped bars)
      BelowPopRange(k, x) == x \in DOMAIN F[k].prio /\ F[k].prio[x] <= -(1073741824)
      BadP(race) == {k \in DOMAIN F :
                 \E i \in 1..(Len(F[k].groups) - 1) :
                      LET x == F[k].groups[i].b  y == F[k].groups[i + 1].b IN
                      ~Popping(k, x) /\ Popping(k, y) /\ ~BelowPopRange(k, x) /\ PrioRace(k, y) = race}
      BadPLow == {k \in DOMAIN F :
                 \E i \in 1..(Len(F[k].groups) - 1) :
                      LET x == F[k].groups[i].b  y == F[k].groups[i + 1].b IN
                      ~Popping(k, x) /\ Popping(k, y) /\ BelowPopRange(k, x)}
      \* bars popped out in the same frame appear in the order in which the container finished them: the pop
      \* priorities are handed out while the frame before is flushed, and that frame is collected bottom row first
      PosIn(k, b) == CHOOSE i \in DOMAIN F[k].groups : F[k].groups[i].b = b
      BadPP == {k \in DOMAIN F : k > 1 /\
                 \E i, j \in DOMAIN F[k].groups :
                      LET x == F[k].groups[i].b  y == F[k].groups[j].b IN
                      /\ i < j /\ Popping(k, x) /\ Popping(k, y) /\ ~PrioRace(k, x) /\ ~PrioRace(k, y)
                      /\ x \in NameSet(F[k - 1].groups) /\ y \in NameSet(F[k - 1].groups)
                      /\ PosIn(k - 1, x) < PosIn(k - 1, y)}
  IN (IF BadPP # {} THEN <<B("C18,C06", "popped-out-of-order", e, ToString(BadPP))>> ELSE <<>>)
     \o (IF Badk(FALSE) # {} THEN <<B("C06", "order", e, ToString(Badk(FALSE)))>> ELSE <<>>)
     \o (IF Badk(TRUE) # {} THEN <<B("C06,C17", "order/successor-position", e, ToString(Badk(TRUE)))>> ELSE <<>>)
     \o (IF BadP(FALSE) # {} THEN <<B("C18", "popped-not-on-top", e, ToString(BadP(FALSE)))>> ELSE <<>>)
     \o (IF BadPLow # {} THEN <<B("C18", "popped-not-on-top/priority-below-pop-range", e, ToString(BadPLow))>> ELSE <<>>)
     \o (IF BadP(TRUE) # {} THEN <<B("C18", "popped-not-on-top/priority-changed-before-pop", e, ToString(BadP(TRUE)))>> ELSE <<>>)

---------------------------------------------------------------------------
(* end-of-trace rules *)

FinalRules(s, e) ==
  LET F    == s.frames
      last == IF F = <<>> THEN <<>> ELSE F[Len(F)].groups
      lastS == NameSet(last)
      okb  == {b \in DOMAIN s.bars : s.bars[b].ok}
      LastRow(b) == LET k == MaxOf({j \in DOMAIN F : b \in NameSet(F[j].groups)})
                        i == CHOOSE i \in DOMAIN F[k].groups : F[k].groups[i].b = b
                    IN F[k].groups[i]
      Fl(g) == (IF g.completed THEN "C" ELSE "") \o (IF g.aborted THEN "A" ELSE "")
  IN
  \* C03: in an auto-refreshing container that ended by Wait, the last frame holds every
  \* bar that stays, once (dup rule), in its final state, and none of the bars that leave
  \* C17 where frames are drawn on request: a bar queued behind another is "always eventually displayed" - after its Add
  \* has returned and its predecessor has been drawn in a terminal state, three further frames are more than the hand-over
  \* takes (an orphaned successor of the recorded findings keeps its mechanism in the name)
  (LET TermIn(k, b) == \E i \in DOMAIN F[k].groups : F[k].groups[i].b = b /\ Terminal(F[k].groups[i].fl)
       After(b) == {k \in DOMAIN F : F[k].cyc > s.bars[b].ret /\ \E j \in 1..(k - 1) : TermIn(j, s.bars[b].after)}
       neverM == {b \in okb : s.bars[b].after # "" /\ s.bars[b].ret # 0 /\ b \notin s.shown /\ Cardinality(After(b)) >= 3}
   IN IF s.cfg.refresh = "manual" /\ NormalEnd(s) /\ ~s.fault /\ ~s.cfg.narrow /\ neverM # {}
      THEN <<B("C17", "queued-never-shown" \o (IF neverM \subseteq Doomed(s) THEN "/orphaned-successor" ELSE ""), e, ToString(neverM))>>
      ELSE <<>>)
  \o
  (IF FinalRendered(s)
   THEN (LET stay == {b \in okb : ~Leaves(s, b) /\ ~Queued(s, b)}
             miss == stay \ lastS
             left == {b \in okb \cap lastS : Removed(s, b)}
             stale == {b \in okb \cap s.shown : b \in DOMAIN s.final /\
                          (LastRow(b).cur # s.final[b].cur \/ LastRow(b).fl # Fl(s.final[b]))}
             never == {b \in okb : b \notin s.shown}
         IN (IF miss # {} THEN <<B("C03", "last-frame-missing" \o DpAny(s), e, ToString(miss))>> ELSE <<>>)
            \o (IF left # {} THEN <<B("C03", "last-frame-has-removed", e, ToString(left))>> ELSE <<>>)
            \o (IF stale # {} THEN <<B("C03", "last-row-not-final" \o DpAny(s), e, ToString(stale))>> ELSE <<>>)
            \o (IF never \cap {b \in okb : Queued(s, b)} # {}
                THEN <<B("C17", "queued-never-shown", e, ToString(never))>> ELSE <<>>)
            \o (IF never \ {b \in okb : Queued(s, b)} # {}
                THEN <<B("C05", "never-shown" \o DpAny(s), e, ToString(never))>> ELSE <<>>))
   ELSE <<>>)
  \* C13: every accepted line is in the output exactly once, in call order
  \o (LET W   == s.writes
          T   == s.texts
          Cnt(line) == Cardinality({i \in DOMAIN T : T[i].line = line})
          okw == {i \in DOMAIN W : W[i].ok}
          \* the same line may be written several times: it is in the output as often as it was written
          Oks(line)   == Cardinality({i \in okw : W[i].line = line})
          Maybe(line) == Cardinality({i \in DOMAIN W : W[i].line = line /\ (W[i].ok \/ W[i].part \/ W[i].ret = 0)})
          lost == {i \in okw : Cnt(W[i].line) < Oks(W[i].line)}
          dup  == {i \in DOMAIN W : Cnt(W[i].line) > Maybe(W[i].line) /\ Maybe(W[i].line) > 0}
          ghost == {i \in DOMAIN W : ~W[i].ok /\ ~W[i].part /\ W[i].ret # 0 /\ Maybe(W[i].line) = 0 /\ Cnt(W[i].line) > 0}
          Pos(i) == CHOOSE j \in DOMAIN T : T[j].line = W[i].line
          Once(i) == Cnt(W[i].line) = 1 /\ Cardinality({j \in DOMAIN W : W[j].line = W[i].line}) = 1
          swapped == {p \in okw \X okw : /\ W[p[1]].ret < W[p[2]].inv
                                        /\ Once(p[1]) /\ Once(p[2])
                                        /\ Pos(p[1]) > Pos(p[2])}
          \* the lines of one call stay together: no other writer's line comes between them
          torn == {i \in okw : W[i].k > 1 /\ Once(i) /\
                     \E j \in okw : W[j].c = W[i].c /\ W[j].i = W[i].i /\ W[j].k = W[i].k - 1 /\ Once(j) /\ Pos(i) # Pos(j) + 1}
      IN (IF torn # {} THEN <<B("C13", "write-torn", e, ToString({W[i].line : i \in torn}))>> ELSE <<>>)
         \o (IF lost # {} /\ NormalEnd(s) /\ s.cfg.refresh = "auto" /\ s.renderStarted
          THEN <<B("C13", "text-lost", e, ToString({W[i].line : i \in lost}))>> ELSE <<>>)
         \o (IF s.topen # 0 /\ ~s.cfg.delay /\ ~s.wpartial /\ lost = {} /\ NormalEnd(s) /\ s.cfg.refresh = "auto" /\ s.renderStarted
             THEN <<B("C13", "text-bytes-altered", e, "line without its line feed")>> ELSE <<>>)
         \o (IF dup # {} THEN <<B("C13", "text-duplicated", e, ToString({W[i].line : i \in dup}))>> ELSE <<>>)
         \o (IF ghost # {} THEN <<B("C13", "rejected-text-emitted", e, ToString({W[i].line : i \in ghost}))>> ELSE <<>>)
         \o (IF swapped # {} THEN <<B("C13", "text-out-of-order", e, ToString(swapped))>> ELSE <<>>))
  \* C14: every shutdown listener exactly once
  \o (LET want == UNION {Range_(s.bars[b].listens) : b \in okb}
          wrong == {d \in want : (IF d \in DOMAIN s.listens THEN s.listens[d] ELSE 0) # 1}
      IN IF wrong # {} /\ s.doneAt # 0 /\ ~s.hung THEN <<B("C14", "listener-count", e, ToString(wrong))>> ELSE <<>>)
  \* C10/C19/C20: every sample handed to a bar reaches each of its moving-average decorators (the same number of times)
  \o (LET Cnt(d) == IF d \in DOMAIN s.ewmas THEN s.ewmas[d] ELSE 0
          odd == {b \in okb : Cardinality({Cnt(d) : d \in Range_(s.bars[b].ewmas)}) > 1}
      IN IF odd # {} /\ ~s.hung THEN <<B("C10,C19,C20", "ewma-samples-differ-between-decorators", e, ToString(odd))>> ELSE <<>>)
  \* C14/C05: the notifier
  \o (IF s.cfg.notifier /\ s.doneAt # 0 /\ ~s.hung /\ Len(s.notifies) # 1
      THEN <<B("C14", "notifier-count", e, ToString(Len(s.notifies)))>> ELSE <<>>)
  \o (IF s.cfg.notifier /\ Len(s.notifies) >= 1 /\ NormalEnd(s) /\ s.cfg.refresh = "auto" /\ s.renderStarted
      THEN (LET got == Range_(s.notifies[1]) IN
            IF got # {b \in lastS : b \in okb /\ ~Poppable(s, b)} THEN <<B("C05", "notifier-list" \o DpAny(s), e, ToString(<<got, lastS>>))>> ELSE <<>>)
      ELSE <<>>)
  \* C05/C15: after a render error the notifier still lists every bar that stays in the
  \* container (the bar whose own rendering failed is not demanded: weaker reading)
  \o (IF s.cfg.notifier /\ Len(s.notifies) >= 1 /\ s.fault /\ ~s.hung /\ s.detached = {}
      THEN (LET got  == Range_(s.notifies[1])
                want == {b \in lastS : b \in okb /\ b # s.faultBar /\ ~(b \in s.termSeen /\ Leaves(s, b))}
            IN IF want \ got # {} THEN <<B("C05,C15", "notifier-list-after-error", e, ToString(<<want \ got, got>>))>> ELSE <<>>)
      ELSE <<>>)
  \* C16
  \o (IF e.nleaks # 0
      THEN <<B(IF s.fault THEN "C16,C15" ELSE "C16", "goroutine-leak" \o (IF s.detached # {} THEN "/detached-push"
                                           ELSE IF s.fault /\ SyncBars(s) # {} /\ e.allfmt THEN "/render-error-during-width-sync"
                                           ELSE ""), e, ToString(e.leaks))>>
      ELSE <<>>)
  \* C15: the error is reported exactly once
  \o (IF s.fault /\ s.debug # 1 THEN <<B("C15", "debug-lines", e, ToString(s.debug))>> ELSE <<>>)
  \o (IF ~s.fault /\ s.debug # 0 THEN <<B("C15", "spurious-debug", e, ToString(s.debug))>> ELSE <<>>)
  \* C11: after Wait exactly one terminal state per bar
  \o (LET odd == {b \in DOMAIN s.final : s.final[b].completed = s.final[b].aborted}
      IN IF odd # {} THEN <<B("C11", "not-exactly-one-terminal-state", e, ToString(odd))>> ELSE <<>>)
  \* C14: after the container is done nothing is running
  \o (LET run == {b \in DOMAIN s.final : s.final[b].running}
      IN IF run # {} THEN <<B("C14", "running-after-done", e, ToString(run))>> ELSE <<>>)

---------------------------------------------------------------------------
(* one event *)

GetRules(s, e) ==
  \* C11: never both; once a terminal state was reported it stays
  (IF e.completed /\ e.aborted THEN <<B("C11", "completed-and-aborted", e, e.b)>> ELSE <<>>)
  \o (IF e.b \in s.compShown /\ (~e.completed \/ e.aborted) THEN <<B("C11,C09", "completed-unstable", e, e.b)>> ELSE <<>>)
  \o (IF e.b \in s.abrtSeen /\ (~e.aborted \/ e.completed) THEN <<B("C11", "aborted-unstable", e, e.b)>> ELSE <<>>)
  \* C02: ID() returns the id the bar was given (ids are labels and may be shared by several bars)
  \o (IF e.b \in DOMAIN s.bars /\ s.bars[e.b].hasid /\ e.id # s.bars[e.b].id THEN <<B("C02", "wrong-id", e, e.b)>> ELSE <<>>)
  \* C11/C09: a bar whose increments reached its total - every one of them handed to the bar before anything could
  \* abort or cancel it - is completed, and stays so whatever happens to its later frames
  \o (IF e.b \in s.mustComplete /\ (~e.completed \/ e.aborted) THEN <<B("C11,C09", "completed-bar-not-completed", e, e.b)>> ELSE <<>>)
  \* C02: after the container is done getters keep returning the final values
  \o (IF e.b \in DOMAIN s.final /\ (s.final[e.b].cur # e.cur \/ s.final[e.b].completed # e.completed
                                     \/ s.final[e.b].aborted # e.aborted)
      THEN <<B("C02", "final-values-changed", e, e.b)>> ELSE <<>>)

(* a priority change has returned *)
WithPrioCall(s, e) == [s EXCEPT !.prioCalls = IF <<e.c, e.i>> \in DOMAIN s.prioInv /\ s.doneAt = 0
                                               THEN @ \cup {<<e.b, s.prioInv[<<e.c, e.i>>], e.seq>>} ELSE @]
PrioReturned(s, e) ==
         \* honoured unless the bar has already left the display
         IF e.b \in s.gone \/ s.doneAt # 0 THEN s
         ELSE IF s.stopReq \/ s.closing
              THEN [s EXCEPT !.prioLost = TRUE,   \* it may or may not have been applied
                             !.prioAt = IF e.b \in DOMAIN @ THEN [@ EXCEPT ![e.b] = e.seq] ELSE @ @@ (e.b :> e.seq)]
         ELSE [s EXCEPT !.prio[e.b] = e.n, !.lazy = @ \/ e.flag,
                        !.prioAt = IF e.b \in DOMAIN @ THEN [@ EXCEPT ![e.b] = e.seq] ELSE @ @@ (e.b :> e.seq)]

Step(s, e) ==
  CASE e.ev = "begin" ->
         [Init0 EXCEPT !.tr = e.tr, !.cfg = e.cfg, !.family = e.family, !.renderStarted = ~e.cfg.delay]
    [] e.ev = "inv" /\ e.op = "add" ->
         [s EXCEPT !.bars = @ @@ (e.b :> [total |-> e.total, rm |-> e.rm, nopop |-> e.nopop, after |-> e.after,
                                          hasprio |-> e.hasprio, prio |-> e.prio, hasid |-> e.hasid, id |-> e.id, listens |-> e.listens, ewmas |-> e.ewmas, wraps |-> e.wraps,
                                          npre |-> e.npre, trim |-> e.trim, nsync |-> e.psync + e.async, ext |-> e.ext,
                                          inv |-> e.seq, ret |-> 0, ok |-> FALSE])]
    [] e.ev = "ret" /\ e.op = "add" ->
         [s EXCEPT !.bars[e.b].ret = e.seq, !.bars[e.b].ok = (e.err = "")]
    [] e.ev = "created" ->
         [s EXCEPT !.created = Append(@, e.b),
                   !.lateSucc = IF s.bars[e.b].after \in DOMAIN s.termCnt /\ s.termCnt[s.bars[e.b].after] >= 2
                                THEN @ \cup {e.b} ELSE @,
                   !.prio = @ @@ (e.b :> IF s.bars[e.b].hasprio THEN s.bars[e.b].prio ELSE Len(s.created))]
    [] e.ev = "inv" /\ e.op = "prio" -> [s EXCEPT !.prioInv = (<<e.c, e.i>> :> e.seq) @@ @]
    [] e.ev = "ret" /\ e.op = "prio" /\ e.b \in DOMAIN s.prio -> PrioReturned(WithPrioCall(s, e), e)
    [] e.ev = "ret" /\ e.op = "abort" /\ <<e.c, e.i>> \in s.abortNoop -> s    \* Abort has no effect on a completed bar
    [] e.ev = "ret" /\ e.op = "abort" /\ s.doneAt = 0 ->
         [s EXCEPT !.dropped = IF e.flag THEN @ \cup {e.b} ELSE @,
                   !.aborts = IF s.stopReq THEN @
                              ELSE IF e.b \in DOMAIN @ THEN [@ EXCEPT ![e.b] = @ \cup {e.flag}] ELSE @ @@ (e.b :> {e.flag}),
                   !.abortsU = IF ~s.stopReq THEN @
                               ELSE IF e.b \in DOMAIN @ THEN [@ EXCEPT ![e.b] = @ \cup {e.flag}] ELSE @ @@ (e.b :> {e.flag})]
    [] e.ev = "ret" /\ e.op \in {"incr", "ewma"} /\ e.n > 0 /\ e.b \in DOMAIN s.bars ->
         LET lb == (IF e.b \in DOMAIN s.curLB THEN s.curLB[e.b] ELSE 0) + e.n
             sure == /\ e.b \notin s.spoiled /\ ~s.stopReq /\ ~s.closing /\ ~s.fault /\ s.doneAt = 0
                     /\ s.bars[e.b].total > 0 /\ lb >= s.bars[e.b].total
         IN [s EXCEPT !.curLB = (e.b :> lb) @@ @, !.mustComplete = IF sure THEN @ \cup {e.b} ELSE @]
    [] e.ev = "inv" /\ e.op = "abort" ->
         \* an Abort invoked on a bar that is already known to be completed is refused: it neither aborts nor changes
         \* what happens to the bar afterwards (removal, drop)
         [s EXCEPT !.spoiled = @ \cup {e.b},
                   !.abortNoop = IF e.b \in s.compShown \cup s.mustComplete THEN @ \cup {<<e.c, e.i>>} ELSE @]
    [] e.ev = "inv" /\ e.op \in {"settotal", "trigger"} -> [s EXCEPT !.spoiled = @ \cup {e.b}]
    [] e.ev = "inv" /\ e.op = "setcur" ->
         [s EXCEPT !.spoiled = @ \cup {e.b},
                   !.curUB = [b \in DOMAIN @ \cup {e.b} |-> (IF b \in DOMAIN @ THEN @[b] ELSE 0) + (IF b = e.b /\ e.n > 0 THEN e.n ELSE 0)]]
    [] e.ev = "inv" /\ e.op = "incr" /\ e.n <= 0 -> [s EXCEPT !.spoiled = @ \cup {e.b}]
    [] e.ev = "inv" /\ e.op \in {"incr", "setcur", "ewma"} /\ e.n > 0 ->
         [s EXCEPT !.curUB = [b \in DOMAIN @ \cup {e.b} |-> (IF b \in DOMAIN @ THEN @[b] ELSE 0) + (IF b = e.b THEN e.n ELSE 0)]]
    [] e.ev = "inv" /\ e.op \in {"cancel", "shutdown"} -> [s EXCEPT !.stopReq = TRUE]
    [] e.ev = "closing" -> [s EXCEPT !.closing = TRUE]
    [] e.ev = "inv" /\ e.op = "delayend" -> [s EXCEPT !.renderStarted = TRUE]
    [] e.ev = "ret" /\ e.op = "wait" ->
         [s EXCEPT !.waitAt = IF @ = 0 THEN e.seq ELSE @, !.doneAt = IF @ = 0 THEN e.seq ELSE @]
    [] e.ev = "ret" /\ e.op = "shutdown" -> [s EXCEPT !.doneAt = IF @ = 0 THEN e.seq ELSE @]
    [] e.ev = "inv" /\ e.op = "write" ->
         \* one record per line of the call (k: its position within the call)
         \* (an empty JSON array arrives as an empty function: its DOMAIN is counted, Len is not defined on it)
         [s EXCEPT !.writes = @ \o [k \in 1..(1 + Cardinality(DOMAIN e.more)) |->
                                      [line |-> IF k = 1 THEN e.line ELSE e.more[k - 1], inv |-> e.seq, ret |-> 0, ok |-> FALSE,
                                       part |-> FALSE, c |-> e.c, i |-> e.i, k |-> k]]]
    [] e.ev = "ret" /\ e.op = "write" ->
         [s EXCEPT !.writes = [i \in DOMAIN @ |-> IF @[i].c = e.c /\ @[i].i = e.i
                                                  THEN [@[i] EXCEPT !.ret = e.seq, !.ok = (e.err = "" /\ e.full), !.part = e.partial]
                                                  ELSE @[i]],
                   !.wpartial = @ \/ e.partial]
    [] e.ev = "ret" /\ e.op = "get" ->
         [s EXCEPT !.compSeen = IF e.completed THEN @ \cup {e.b} ELSE @,
                   !.compShown = IF e.completed THEN @ \cup {e.b} ELSE @,
                   !.abrtSeen = IF e.aborted THEN @ \cup {e.b} ELSE @,
                   !.termSeen = IF e.completed \/ e.aborted THEN @ \cup {e.b} ELSE @,
                   !.final = IF s.doneAt # 0 /\ e.b \notin DOMAIN @
                             THEN @ @@ (e.b :> [cur |-> e.cur, completed |-> e.completed, aborted |-> e.aborted,
                                                running |-> e.running])
                             ELSE @]
    [] e.ev = "cycle" -> [s EXCEPT !.cyc = e.seq, !.fmts = <<>>, !.ncyc = @ + 1]
    [] e.ev = "tickfwd" -> [s EXCEPT !.nreq = @ + 1]
    [] e.ev = "fmtret" -> [s EXCEPT !.fmts = Append(@, e)]
    [] e.ev = "ewma" -> [s EXCEPT !.ewmas = IF e.d \in DOMAIN @ THEN [@ EXCEPT ![e.d] = @ + 1] ELSE @ @@ (e.d :> 1)]
    [] e.ev = "out" ->
         LET cur  == NameSet(e.groups)
             prev == NameSet(PrevGroups(s))
             k    == Len(s.frames) + 1
             \* a successor takes over its predecessor's priority when it first appears
             \* (the hand-over happens while the predecessor's last frame is drawn; a change
             \* of the successor's own priority that returned after that frame stands)
             np   == [b \in DOMAIN s.prio |->
                        IF /\ b \in cur /\ b \notin s.shown /\ b \in DOMAIN s.bars /\ s.bars[b].after \in DOMAIN s.prio
                           /\ ~(b \in DOMAIN s.prioAt /\ s.frames # <<>> /\ s.prioAt[b] > s.frames[Len(s.frames)].seq)
                        THEN (IF s.frames # <<>> /\ s.bars[b].after \in DOMAIN s.frames[Len(s.frames)].prio
                              THEN s.frames[Len(s.frames)].prio[s.bars[b].after]   \* as of the predecessor's last frame
                              ELSE s.prio[s.bars[b].after])
                        ELSE s.prio[b]]
         IN
         [s EXCEPT !.frames = Append(@, [groups |-> [i \in DOMAIN e.groups |->
                                                        [b |-> e.groups[i].b, cur |-> e.groups[i].cur,
                                                         tot |-> e.groups[i].tot, fl |-> e.groups[i].fl,
                                                         ext |-> e.groups[i].ext]],
                                         text |-> e.text, cyc |-> s.cyc, seq |-> e.seq, prio |-> np,
                                         exempt |-> s.lazy \/ s.prioLost, cuu |-> e.cuu, nlines |-> e.nlines]),
                   !.prio = np,
                   !.lazy = FALSE,
                   !.shown = @ \cup cur,
                   !.gone = @ \cup (prev \ cur),
                   !.termSeen = @ \cup {e.groups[i].b : i \in {j \in DOMAIN e.groups : Terminal(e.groups[j].fl)}},
                   !.compShown = @ \cup {e.groups[i].b : i \in {j \in DOMAIN e.groups : e.groups[j].fl = "C"}},
                   !.texts = @ \o [i \in DOMAIN e.text |-> [line |-> e.text[i], frame |-> k]],
                   !.topen = @ + e.ttok - e.tnl,
                   !.detachedF = {},
                   !.termCnt = LET tb == {e.groups[i].b : i \in {j \in DOMAIN e.groups : Terminal(e.groups[j].fl)}}
                               IN [b \in DOMAIN @ \cup tb |-> (IF b \in DOMAIN @ THEN @[b] ELSE 0) + (IF b \in tb THEN 1 ELSE 0)],
                   !.fmts = <<>>]
    [] e.ev = "fault" -> [s EXCEPT !.fault = TRUE, !.faultAt = e.seq, !.faultBar = IF Has(e, "b") THEN e.b ELSE ""]
    [] e.ev = "debug" -> [s EXCEPT !.debug = @ + 1]
    [] e.ev = "onshutdown" ->
         [s EXCEPT !.listens = IF e.d \in DOMAIN @ THEN [@ EXCEPT ![e.d] = @ + 1] ELSE @ @@ (e.d :> 1)]
    [] e.ev = "notify" -> [s EXCEPT !.notifies = Append(@, e.bars)]
    [] e.ev = "hang" -> [s EXCEPT !.hung = TRUE]
    [] e.ev = "detached" -> [s EXCEPT !.detached = @ \cup {e.b}, !.detachedF = @ \cup {e.b}]
    [] OTHER -> s

Check(s, e) ==
  CASE e.ev = "out" -> FrameRules(s, e) \o SyncRules(s, e) \o AlignRules(s, e)
    [] e.ev = "ret" /\ e.op = "get" -> GetRules(s, e)
    [] e.ev = "ret" /\ e.op = "add" ->
         \* C02: a late Add returns ErrDone
         IF s.waitAt # 0 /\ s.bars[e.b].inv > s.waitAt /\ e.err # "ErrDone"
         THEN <<B("C02", "late-add", e, e.err)>> ELSE <<>>
    [] e.ev = "ret" /\ e.op = "write" ->
         LET i == CHOOSE i \in DOMAIN s.writes : s.writes[i].c = e.c /\ s.writes[i].i = e.i IN
         (IF s.waitAt # 0 /\ s.writes[i].inv > s.waitAt /\ (e.err # "ErrDone" \/ e.wn # 0)
          THEN <<B("C13", "late-write", e, e.err)>> ELSE <<>>)
         \o (IF e.err = "" /\ ~e.full THEN <<B("C13", "short-write", e, e.line)>> ELSE <<>>)
    \* C05/C01: a render request the container has taken is followed by a render cycle - with or without a render
    \* delay, since the cycles are what lets finished bars leave.  The listener hands over one request at a time, so
    \* at most one request is waiting to be taken and one taken whose cycle has not begun.
    [] e.ev = "tickfwd" ->
         IF ~s.fault /\ s.nreq + 1 - s.ncyc > 2
         THEN <<B("C05,C01", "render-request-ignored", e, ToString(<<s.nreq + 1, s.ncyc>>))>> ELSE <<>>
    \* C10: a decorator's EwmaUpdate is joined before the bar's goroutine goes on: it never overlaps Decor
    [] e.ev = "overlap" -> <<B("C10", "ewma-update-not-joined", e, e.d)>>
    [] e.ev = "onshutdown" ->
         \* C14: listeners are notified before Wait returns
         IF s.waitAt # 0 THEN <<B("C14", "listener-after-wait", e, e.d)>> ELSE <<>>
    [] e.ev = "hang" ->
         LET why == IF s.detached # {} THEN "/detached-push"
                    ELSE IF Orphans(s) # {} /\ Orphans(s) \subseteq Doomed(s) THEN "/orphaned-successor"
                    ELSE IF s.fault /\ SyncBars(s) # {} /\ e.infmt THEN "/render-error-during-width-sync"
                    ELSE ""
             ps  == "C01,C02" \o (IF s.fault THEN ",C15" ELSE "") \o (IF Orphans(s) # {} THEN ",C17" ELSE "")
                              \o (IF s.stopReq \/ (s.closing /\ why = "") THEN ",C14" ELSE "")   \* (closing: Wait's own cancellation is under way)
                              \o (IF SyncBars(s) # {} /\ e.infmt THEN ",C12" ELSE "")
                              \o (IF e.wpend THEN ",C13" ELSE "")
         IN IF e.kind = "spinning" /\ e.pending = <<>>
            \* every call has returned and a library goroutine keeps running without ever blocking: a leak that burns a core
            THEN <<B(IF s.fault THEN "C16,C15" ELSE "C16", "goroutine-leak", e, "a goroutine spins: " \o ToString(e.goroutines))>>
            ELSE <<B(ps, "hang" \o why, e, ToString(<<e.kind, e.pending>>))>>
    [] e.ev = "panic" ->
         \* (C15: "there is no panic" once a filler, an extender or the output has returned an error)
         <<B(IF s.fault THEN "C02,C15" ELSE "C02", "panic" \o (IF s.detached # {} /\ e.closedsend THEN "/detached-push" ELSE ""), e, e.msg)>>
    \* C09: a refill mark never exceeds what the counter can have been when the mark was set
    [] e.ev = "fill" ->
         IF e.refill > (IF e.b \in DOMAIN s.curUB THEN s.curUB[e.b] ELSE 0)
         THEN <<B("C09", "refill-exceeds-counter", e, ToString(<<e.b, e.refill>>))>> ELSE <<>>
    \* C05/C01: a push takes the detour through a goroutine of its own only when the manager's queue is full; with a
    \* queue at least twice as long as the number of bars (plus the few requests clients can add) it never is
    [] e.ev = "detached" ->
         LET q == IF s.cfg.q < 0 THEN 128 ELSE s.cfg.q IN
         IF q >= 2 * Cardinality(DOMAIN s.bars) + 16
         THEN <<B("C05,C01", "detached-push-with-room-in-the-queue", e, ToString(<<q, Cardinality(DOMAIN s.bars)>>))>> ELSE <<>>
    [] e.ev = "race" -> IF e.lib THEN <<B("C10", "data-race", e, e.msg)>> ELSE <<>>
    [] e.ev = "latewrite" -> <<B("C03", "write-after-wait", e, "late")>>
    [] e.ev = "quiesce" -> FinalRules(s, e) \o OrderRules(s, e)
    [] OTHER -> <<>>

(* A container so narrow that decorators are cut and rows cannot be told apart is judged by the rules that do
   not read row contents: liveness, crashes, leaks, notifications, widths, what the getters and calls return. *)
NarrowRules == {"hang", "hang/detached-push", "hang/orphaned-successor", "hang/render-error-during-width-sync",
                "panic", "panic/detached-push", "goroutine-leak", "goroutine-leak/detached-push",
                "goroutine-leak/render-error-during-width-sync", "listener-count", "listener-after-wait",
                "notifier-count", "row-too-wide", "decorator-width-report", "write-after-wait", "frame-after-error",
                "debug-lines", "spurious-debug", "running-after-done", "not-exactly-one-terminal-state",
                "completed-and-aborted", "completed-unstable", "aborted-unstable", "late-add", "late-write",
                "short-write", "final-values-changed", "data-race", "ewma-samples-differ-between-decorators",
                "refill-exceeds-counter", "render-request-ignored", "ewma-update-not-joined",
                "detached-push-with-room-in-the-queue"}
(* With a render delay the frames drawn before the delay ends are discarded together with the text they carry: which
   bars have already left, and which lines were lost, cannot be told from the output. *)
DelayBlind == {"missing", "missing/detached-push", "never-shown", "never-shown/detached-push", "last-frame-missing",
               "last-frame-missing/detached-push", "notifier-list", "notifier-list/detached-push", "text-lost",
               "text-bytes-altered", "queued-never-shown", "successor-not-shown", "last-row-not-final",
               "popped-not-on-top", "popped-not-on-top/priority-below-pop-range", "popped-out-of-order", "order", "order/successor-position"}
Applicable(s, q) == IF s.cfg.narrow THEN SelectSeq(q, LAMBDA b : b.r \in NarrowRules)
                    ELSE IF s.cfg.delay THEN SelectSeq(q, LAMBDA b : b.r \notin DelayBlind)
                    ELSE q

---------------------------------------------------------------------------
Init == l = 1 /\ st = Init0 /\ bad = <<>>

Next ==
  \/ /\ l <= Len(Trace)
     /\ LET e == Trace[l] IN
          /\ st' = Step(st, e)
          /\ bad' = bad \o Applicable(st, Check(st, e))
     /\ l' = l + 1
  \/ /\ l = Len(Trace) + 1
     /\ JsonSerialize(IOEnv.OBS_OUT, bad)
     /\ PrintT(<<"OBS-RESULT", Len(Trace), Len(bad)>>)
     /\ l' = l + 1
     /\ UNCHANGED <<st, bad>>

Spec == Init /\ [][Next]_vars

(* the whole batch has been consumed *)
Consumed == TLCGet("stats").diameter >= Len(Trace) + 2
=============================================================================
