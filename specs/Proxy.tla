------------------------------- MODULE Proxy -------------------------------
(***************************************************************************)
(* C19: a proxy reader / writer is transparent.  The wrapped value is a    *)
(* script of results (n, err); the proxy must hand every result through    *)
(* unchanged, forward Close, offer the fast path (WriteTo / ReadFrom)      *)
(* exactly when the wrapped value has it, advance the bar by exactly n     *)
(* (capped at the total once triggering is on, BarState rule), and give    *)
(* every n to the moving-average decorators.  TLC enumerates all scripts;  *)
(* each terminal state is one test of the real proxies.                    *)
(***************************************************************************)
EXTENDS Integers, Sequences, TLC, Json

CONSTANTS Ns,        \* byte counts a call may return
          MaxCalls,
          Totals,    \* bar totals (0 = unknown)
          Provs      \* provisional totals given with SetTotal(x, false) to a bar of unknown total before the transfer (0 = none):
                     \* an estimate does not switch completion on, so it caps nothing

Errs == {"", "EOF", "boom"}
Seqs(S, n) == UNION {[1..k -> S] : k \in 0..n}

VARIABLES cfg,      \* [dir, hasClose, hasFast, ewma, total, useFast, script, closes]
          i, cur, done, results, samples, closed
vars == <<cfg, i, cur, done, results, samples, closed>>

Cfgs == [dir : {"r", "w"}, hasClose : BOOLEAN, hasFast : BOOLEAN, ewma : BOOLEAN, total : Totals, prov : Provs, useFast : BOOLEAN,
         script : Seqs([n : Ns, err : Errs], MaxCalls), closes : 0..1]

Init == /\ cfg \in {c \in Cfgs : (c.useFast => c.hasFast /\ Len(c.script) = 1) /\ Len(c.script) >= 1 /\ (c.prov > 0 => c.total = 0)}
        /\ i = 1 /\ cur = 0 /\ done = FALSE /\ results = <<>> /\ samples = <<>> /\ closed = 0

Trig == cfg.total > 0
Cap(c) == IF Trig /\ c >= cfg.total THEN cfg.total ELSE c

(* one Read / Write / WriteTo / ReadFrom on the proxy *)
Call ==
  /\ i <= Len(cfg.script)
  /\ LET r == cfg.script[i] IN
       /\ results' = Append(results, r)                       \* transparent
       /\ cur' = IF done THEN cur ELSE Cap(cur + r.n)         \* the bar advances by n
       /\ done' = (done \/ (Trig /\ cur + r.n >= cfg.total))
       /\ samples' = IF cfg.ewma /\ ~done THEN Append(samples, r.n) ELSE samples
  /\ i' = i + 1 /\ UNCHANGED <<cfg, closed>>

Close ==
  /\ i = Len(cfg.script) + 1 /\ closed < cfg.closes
  /\ closed' = closed + 1 /\ UNCHANGED <<cfg, i, cur, done, results, samples>>

Finished == i = Len(cfg.script) + 1 /\ closed = cfg.closes
Next == Call \/ Close \/ (Finished /\ UNCHANGED vars)
Spec == Init /\ [][Next]_vars

Sum(s) == LET F[k \in 0..Len(s)] == IF k = 0 THEN 0 ELSE F[k - 1] + s[k].n IN F[Len(s)]
(* what the statement promises, on the reference machine itself *)
Transparent == results = SubSeq(cfg.script, 1, Len(results))
Accounted   == cur = Cap(Sum(results)) \/ done
NeverOver   == Trig => cur <= cfg.total
AllSamples  == (cfg.ewma /\ ~Trig) => samples = [k \in 1..Len(results) |-> results[k].n]

EmitCase == Finished => PrintT(<<"PROXY", ToJson([cfg |-> cfg, cur |-> cur, done |-> done, samples |-> samples,
                                                  forwardedClose |-> (IF cfg.hasClose THEN closed ELSE 0)])>>)
=============================================================================
