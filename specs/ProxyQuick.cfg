SPECIFICATION Spec
CONSTANTS
  Ns = {0, 1, 3}
  MaxCalls = 2
  Totals = {0, 4}
  Provs = {0, 2}
INVARIANTS Transparent Accounted NeverOver AllSamples EmitCase
CHECK_DEADLOCK FALSE
