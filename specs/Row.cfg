INIT Init
NEXT Next
CONSTANTS
  MaxTW = 12
  DecW = {0, 1, 3, 5}
  MaxDec = 2
INVARIANTS RowFits AvailSane EmitRow
CHECK_DEADLOCK FALSE
