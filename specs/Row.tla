-------------------------------- MODULE Row --------------------------------
(***************************************************************************)
(* One row of a bar as bState.draw lays it out (bar.go): the decorators of *)
(* the left and right group take their widths from the terminal width one  *)
(* after the other; one that does not fit is cut to what is left (with an  *)
(* ellipsis) and later ones are dropped; two spacing columns are reserved  *)
(* when at least two columns remain and the bar is not trimmed; the filler *)
(* gets the rest, or the width asked for with BarWidth when that is less. *)
(* C07: the row never exceeds the terminal width.                          *)
(***************************************************************************)
EXTENDS Integers, Sequences, TLC, Json

CONSTANTS MaxTW, DecW, MaxDec
ReqW == {0, -1, 4, 20}   \* not given; not positive; small; wider than any terminal of the model

VARIABLES p, pc, avail, i, written, cut
vars == <<p, pc, avail, i, written, cut>>

Seqs(S, n) == UNION {[1..k -> S] : k \in 0..n}
\* req: the width asked for with BarWidth (0: the option is not given and the bar inherits the container's width)
Params == [tw : 0..MaxTW, left : Seqs(DecW, MaxDec), right : Seqs(DecW, MaxDec), trim : BOOLEAN, wideText : BOOLEAN, req : ReqW]

Init == p \in Params /\ pc = "left" /\ avail = p.tw /\ i = 1 /\ written = 0 /\ cut = 0

Decorate(name, ds, next) ==
  /\ pc = name
  /\ IF i > Len(ds) THEN pc' = next /\ i' = 1 /\ UNCHANGED <<avail, written, cut>>
     ELSE /\ i' = i + 1 /\ pc' = name
          /\ IF avail - ds[i] >= 0 THEN avail' = avail - ds[i] /\ written' = written + ds[i] /\ UNCHANGED cut
             ELSE IF avail > 0
                  \* cut to the remaining width; a wide rune may leave one column unused
                  THEN /\ avail' = 0 /\ cut' = cut + 1
                       /\ written' = written + (IF p.wideText /\ avail > 1 /\ (avail - 1) % 2 = 1 THEN avail - 1 ELSE avail)
                  ELSE UNCHANGED <<avail, written, cut>>

Spaces ==
  /\ pc = "spaces"
  /\ IF p.trim \/ avail < 2 THEN UNCHANGED <<avail, written>>
     ELSE avail' = avail - 2 /\ written' = written + 2
  /\ pc' = "fill" /\ UNCHANGED <<i, cut>>

(* the filler is any filler that respects the width it is given (Fill.tla: NeverTooWide, ExactBody); it is given the
   requested width when that is positive and fits into what the decorators left (internal.CheckRequestedWidth) *)
FillW == LET r == IF p.req = 0 THEN p.tw ELSE p.req IN IF r < 1 \/ r > avail THEN avail ELSE r
Filler == /\ pc = "fill" /\ \E w \in {0, FillW} : written' = written + w
          /\ pc' = "done" /\ UNCHANGED <<avail, i, cut>>

Next == /\ (Decorate("left", p.left, "right") \/ Decorate("right", p.right, "spaces") \/ Spaces \/ Filler)
        /\ p' = p
Spec == Init /\ [][Next]_vars

RowFits == written <= p.tw
AvailSane == avail >= 0
EmitRow == pc = "spaces" => PrintT(<<"ROWP", ToJson([p |-> p, avail |-> avail, written |-> written, cut |-> cut])>>)
=============================================================================
