-------------------------------- MODULE Term --------------------------------
(***************************************************************************)
(* C04 / C18: what a terminal shows.  A VT100-subset terminal of H rows    *)
(* with scrollback (print a line, LF with scrolling at the bottom margin,  *)
(* cursor-up clamped at the top margin, erase from cursor to end of        *)
(* screen) and, on top of it, the frame protocol of the container:         *)
(*   frame k = [CUU(n) ED]? text lines, rows;  n = rows(k-1) - popped(k-1) *)
(* Two uses.                                                               *)
(*  (1) Design: TLC enumerates all short frame sequences (bars added,      *)
(*      removed, popped, text written, more rows than the terminal is      *)
(*      high) produced by the protocol as the code implements it and       *)
(*      checks that everything ever written = what must persist ++ the     *)
(*      current rows: nothing stale, duplicated or lost, no bar row in the *)
(*      scrollback.                                                        *)
(*  (2) Trace validation: the tokenised bytes of real output are run       *)
(*      through the same emulator and judged by the same predicate.        *)
(***************************************************************************)
EXTENDS Integers, Sequences, TLC

(* the emulator: [scr : seq of H lines, sb : scrollback, r : cursor row] *)
Blank(h) == [i \in 1..h |-> ""]
NewTerm(h) == [scr |-> Blank(h), sb |-> <<>>, r |-> 1, h |-> h]

LF(t) == IF t.r < t.h THEN [t EXCEPT !.r = @ + 1]
         ELSE [t EXCEPT !.sb = Append(@, t.scr[1]), !.scr = Append(Tail(t.scr), "")]
PrintLine(t, s) == LF([t EXCEPT !.scr[t.r] = s])
CUU(t, n) == LET m == IF n < 1 THEN 1 ELSE n IN [t EXCEPT !.r = IF @ - m < 1 THEN 1 ELSE @ - m]
ED(t) == [t EXCEPT !.scr = [i \in 1..t.h |-> IF i >= t.r THEN "" ELSE t.scr[i]]]

RECURSIVE PrintAll(_, _)
PrintAll(t, ls) == IF ls = <<>> THEN t ELSE PrintAll(PrintLine(t, Head(ls)), Tail(ls))

EmitFrame(t, cuu, ls) == PrintAll(IF cuu > 0 THEN ED(CUU(t, cuu)) ELSE t, ls)

(* everything the user can see or scroll back to, top to bottom, up to the cursor *)
Above(t) == t.sb \o SubSeq(t.scr, 1, t.r - 1)
(* rows of the current frame that scrolled out of the screen *)
InScrollback(t, ls) == {i \in DOMAIN t.sb : \E j \in DOMAIN ls : t.sb[i] = ls[j]}

=============================================================================
