INIT DInit
NEXT DNext
CONSTANTS
  H = 3
  MaxFrames = 4
  MaxBars = 4
  Clip = "H-1"
INVARIANTS InPlace FitsScreen
CHECK_DEADLOCK FALSE
