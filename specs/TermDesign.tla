----------------------------- MODULE TermDesign -----------------------------
(* Term.tla, use (1): the frame protocol of the container on the emulated terminal, exhaustively. *)
EXTENDS Term

CONSTANTS H,          \* terminal height
          MaxFrames, MaxBars,
          Clip        \* how many rows a frame may keep: "H" (the code as found) or "H-1"

(* (1) design: the protocol as flush() implements it *)
VARIABLES term, k, bars, persisted, up, shown, ok
dvars == <<term, k, bars, persisted, up, shown, ok>>

Label(b, f, i) == "b" \o ToString(b) \o "." \o ToString(i) \o "#" \o ToString(f)

Limit == IF Clip = "H" THEN H ELSE H - 1

DInit == /\ term = NewTerm(H) /\ k = 0 /\ bars = <<>> /\ persisted = <<>> /\ up = 0 /\ shown = <<>> /\ ok = TRUE

(* one render cycle: the bar list may change first; some finished bars are popped (they are on
   top, C18); rows beyond the limit are clipped from the top, as flush does (it keeps the last ones) *)
Frame ==
  /\ k < MaxFrames
  /\ \E nb \in 0..MaxBars, ntext \in 0..1, npop \in 0..1, ext \in 0..1 :
       LET f     == k + 1
           \* bars numbered 1..nb this frame; bar 1 has ext extra rows; the first npop bars are popped
           rowsOf(b) == [i \in 1..(1 + IF b = 1 THEN ext ELSE 0) |-> Label(b, f, i)]
           RECURSIVE cat(_)
           cat(b) == IF b > nb THEN <<>> ELSE rowsOf(b) \o cat(b + 1)
           all   == cat(1)
           kept  == IF Len(all) > Limit THEN SubSeq(all, Len(all) - Limit + 1, Len(all)) ELSE all
           npopE == IF npop <= nb THEN npop ELSE nb
           popped == IF npopE = 0 THEN <<>> ELSE SelectSeq(kept, LAMBDA s : \E i \in 1..2 : s = Label(1, f, i))
           text  == [i \in 1..ntext |-> "t" \o ToString(f)]
           t2    == EmitFrame(term, up, text \o kept)
       IN /\ term' = t2
          /\ shown' = kept
          /\ persisted' = persisted \o text \o popped
          /\ up' = Len(kept) - Len(popped)
          \* everything ever written and still reachable = what persists ++ this frame's rows
          /\ ok' = (Above(t2) = persisted \o text \o kept)
          /\ k' = f /\ UNCHANGED bars

DNext == Frame
DSpec == DInit /\ [][DNext]_dvars

InPlace == ok
FitsScreen == Len(shown) <= H

=============================================================================
