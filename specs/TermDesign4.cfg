INIT DInit
NEXT DNext
CONSTANTS
  H = 4
  MaxFrames = 3
  MaxBars = 4
  Clip = "H-1"
INVARIANTS InPlace FitsScreen
CHECK_DEADLOCK FALSE
