INIT DInit
NEXT DNext
CONSTANTS
  H = 3
  MaxFrames = 3
  MaxBars = 4
  Clip = "H"
INVARIANTS InPlace FitsScreen
CHECK_DEADLOCK FALSE
