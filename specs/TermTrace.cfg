INIT TInit
NEXT TNext
POSTCONDITION TConsumed
CHECK_DEADLOCK FALSE
