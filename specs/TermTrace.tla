----------------------------- MODULE TermTrace -----------------------------
(* Term.tla, use (2): the tokenised bytes of real output on the emulated terminal. *)
EXTENDS Term, Json, IOUtils

(* (2) trace validation: frames recorded from the real library.  Each line of the trace file is
   one frame: [tr, h, w, k, cuu, lines : seq of [s, persist], nrows, maxw]; a new trace
   id resets the terminal. *)
Trace == ndJsonDeserialize(IOEnv.TERM_TRACE)

VARIABLES l, tt, tpers, tr, bad, base
tvars == <<l, tt, tpers, tr, bad, base>>

TInit == l = 1 /\ tt = NewTerm(1) /\ tpers = <<>> /\ tr = "" /\ bad = <<>> /\ base = [x \in {} |-> ""]

(* a bar row is on the terminal at most once: as a current row or as the one persisted copy of a popped bar *)
DupBases(t, bm) ==
  LET A == Above(t)
      idx == {i \in DOMAIN A : A[i] \in DOMAIN bm /\ bm[A[i]] # ""} IN
  {bm[A[i]] : i \in {j \in idx : \E k \in idx : k # j /\ bm[A[k]] = bm[A[j]]}}

TNext ==
  \/ /\ l <= Len(Trace)
     /\ LET e     == Trace[l]
            fresh == e.tr # tr
            t0    == IF fresh THEN NewTerm(e.h) ELSE tt
            p0    == IF fresh THEN <<>> ELSE tpers
            all   == [i \in DOMAIN e.lines |-> e.lines[i].s]
            t2    == EmitFrame(t0, e.cuu, all)
            keep  == SelectSeq(e.lines, LAMBDA x : x.persist)
            want  == p0 \o all
            B(rule, info) == [tr |-> e.tr, k |-> e.k, r |-> rule, info |-> info]
            bm0   == IF fresh THEN [x \in {} |-> ""] ELSE base
            bm    == [x \in DOMAIN bm0 \cup {e.lines[i].s : i \in DOMAIN e.lines} |->
                        IF \E i \in DOMAIN e.lines : e.lines[i].s = x
                        THEN e.lines[CHOOSE i \in DOMAIN e.lines : e.lines[i].s = x].base ELSE bm0[x]]
        IN /\ tt' = t2
           /\ tpers' = p0 \o [i \in DOMAIN keep |-> keep[i].s]
           /\ tr' = e.tr
           /\ base' = bm
           /\ bad' = bad
                \o (IF e.exact /\ Above(t2) # want THEN <<B("not-in-place", ToString(<<Above(t2), want>>))>> ELSE <<>>)
                \o (IF DupBases(t2, bm) # {} THEN <<B("row-on-screen-twice", ToString(DupBases(t2, bm)))>> ELSE <<>>)
                \o (IF e.nrows > e.h THEN <<B("frame-higher-than-terminal", ToString(e.nrows))>> ELSE <<>>)
                \o (IF e.maxw > e.w THEN <<B("line-wider-than-terminal", ToString(e.maxw))>> ELSE <<>>)
     /\ l' = l + 1
  \/ /\ l = Len(Trace) + 1
     /\ JsonSerialize(IOEnv.TERM_OUT, bad)
     /\ l' = l + 1 /\ UNCHANGED <<tt, tpers, tr, bad, base>>

TSpec == TInit /\ [][TNext]_tvars
TConsumed == TLCGet("stats").diameter >= Len(Trace) + 2
=============================================================================
