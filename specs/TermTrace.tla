----------------------------- MODULE TermTrace -----------------------------
(* Term.tla, use (2): the tokenised bytes of real output on the emulated terminal. *)
EXTENDS Term, Json, IOUtils

(* (2) trace validation: frames recorded from the real library.  Each line of the trace file is
   one frame: [tr, h, w, k, cuu, lines : seq of [s, persist], nrows, maxw]; a new trace
   id resets the terminal. *)
Trace == ndJsonDeserialize(IOEnv.TERM_TRACE)

VARIABLES l, tt, tpers, tr, bad
tvars == <<l, tt, tpers, tr, bad>>

TInit == l = 1 /\ tt = NewTerm(1) /\ tpers = <<>> /\ tr = "" /\ bad = <<>>

TNext ==
  \/ /\ l <= Len(Trace)
     /\ LET e     == Trace[l]
            fresh == e.tr # tr
            t0    == IF fresh THEN NewTerm(e.h) ELSE tt
            p0    == IF fresh THEN <<>> ELSE tpers
            all   == [i \in DOMAIN e.lines |-> e.lines[i].s]
            t2    == EmitFrame(t0, e.cuu, all)
            keep  == SelectSeq(e.lines, LAMBDA x : x.persist)
            want  == p0 \o all
            B(rule, info) == [tr |-> e.tr, k |-> e.k, r |-> rule, info |-> info]
        IN /\ tt' = t2
           /\ tpers' = p0 \o [i \in DOMAIN keep |-> keep[i].s]
           /\ tr' = e.tr
           /\ bad' = bad
                \o (IF Above(t2) # want THEN <<B("not-in-place", ToString(<<Above(t2), want>>))>> ELSE <<>>)
                \o (IF e.nrows > e.h THEN <<B("frame-higher-than-terminal", ToString(e.nrows))>> ELSE <<>>)
                \o (IF e.maxw > e.w THEN <<B("line-wider-than-terminal", ToString(e.maxw))>> ELSE <<>>)
     /\ l' = l + 1
  \/ /\ l = Len(Trace) + 1
     /\ JsonSerialize(IOEnv.TERM_OUT, bad)
     /\ l' = l + 1 /\ UNCHANGED <<tt, tpers, tr, bad>>

TSpec == TInit /\ [][TNext]_tvars
TConsumed == TLCGet("stats").diameter >= Len(Trace) + 2
=============================================================================
