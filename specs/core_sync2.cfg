SPECIFICATION Spec
CONSTANTS
  NB = 2
  Q = 2
  Pop = FALSE
  Prog <- P_sync2
  MaxTicks = 4
VIEW view
INVARIANTS NoPanic NoHang NoDupInFrame TextAtMostOnce TextWritten Quiescent
CHECK_DEADLOCK FALSE
