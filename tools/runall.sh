#!/bin/bash
# runs every registered check (tier $1, default quick) and prints one line per property
cd "$(dirname "$0")/.."
T=${1:-quick}
for p in $(python3 -c "import json; print(' '.join(c['property_id'] for c in json.load(open('MANIFEST.json'))['checks']))"); do
  s=$(date +%s); ./check $p $T > /tmp/runall-$T-$p.log 2>&1; rc=$?; e=$(date +%s)
  echo "$p rc=$rc $((e-s))s viol=$(grep -c '^VIOLATION' /tmp/runall-$T-$p.log) known=$(grep -c '^KNOWN-FINDING' /tmp/runall-$T-$p.log)"
done
