#!/bin/bash
# usage: seedcheck.sh <dir with patch.diff demo_test.go meta.json> <demo test regex> <prop> [more props]
# Works in a scratch worktree of /repo (VERIF_REPO), so that /repo itself and anything running against it stay untouched:
# 1. demo passes without the patch; with it the suite passes and the demo fails
# 2. the quick checks are run against the patched scratch tree
set -u
D=$1; RX=$2; shift 2
export GOFLAGS=-mod=mod GOPROXY=off GOSUMDB=off
WT=/tmp/seedchk-$$
git -C /repo worktree add -q --detach $WT HEAD || exit 2
cp $D/demo_test.go $WT/zz_demo_test.go
( cd $WT && timeout 300 go test -count=1 -run "$RX" . >/tmp/seedchk-a.log 2>&1 ); A=$?
( cd $WT && git apply $D/patch.diff ) || { echo "patch does not apply"; cd /verif; rm -rf $SNAP
git -C /repo worktree remove --force $WT; exit 2; }
( cd $WT && mv zz_demo_test.go /tmp/zz_demo_test.go.$$ && timeout 600 go test -count=1 ./... >/tmp/seedchk-s.log 2>&1 ); S=$?
( cd $WT && mv /tmp/zz_demo_test.go.$$ zz_demo_test.go && timeout 300 go test -count=1 -run "$RX" . >/tmp/seedchk-b.log 2>&1 ); B=$?
rm -f $WT/zz_demo_test.go
echo "demo-without-patch rc=$A (want 0)  suite-with-patch rc=$S (want 0)  demo-with-patch rc=$B (want !=0)"
# the checks run from a snapshot of /verif, so that /verif can be edited meanwhile
SNAP=/tmp/seedchk-verif-$$
rsync -a --exclude .git --exclude .work --exclude replays --exclude __pycache__ /verif/ $SNAP/
cd $SNAP
for p in "$@"; do
  VERIF_REPO=$WT timeout 1800 ./check $p quick > /tmp/seedchk-$p.log 2>&1; echo "check $p rc=$?  $(grep -c VIOLATION /tmp/seedchk-$p.log) violations: $(grep VIOLATION /tmp/seedchk-$p.log | head -2 | cut -c1-250)"
done
cd /verif; rm -rf $SNAP
git -C /repo worktree remove --force $WT
