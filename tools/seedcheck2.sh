#!/bin/bash
# usage: seedcheck2.sh <dir with patch.diff demo_test.go meta.json> <demo test regex> <prop> [more props]
# Like seedcheck.sh, with private log names (several may run at once).  Prints one summary block; logs stay in /tmp/seedchk2-<name>/.
set -u
D=$(realpath $1); RX=$2; shift 2
N=$(basename $D)
export GOFLAGS=-mod=mod GOPROXY=off GOSUMDB=off
L=/tmp/seedchk2-$N; rm -rf $L; mkdir -p $L
WT=/tmp/seedchk2-wt-$N
git -C /repo worktree remove --force $WT 2>/dev/null
git -C /repo worktree add -q --detach $WT HEAD || exit 2
cp $D/demo_test.go $WT/zz_demo_test.go
( cd $WT && timeout 300 go test -count=1 -run "$RX" . >$L/a.log 2>&1 ); A=$?
rm -f $WT/zz_demo_test.go
( cd $WT && git apply $D/patch.diff ) || { echo "$N: patch does not apply"; git -C /repo worktree remove --force $WT; exit 2; }
( cd $WT && timeout 900 go test -vet=off -count=1 ./... >$L/s.log 2>&1 ); S=$?
cp $D/demo_test.go $WT/zz_demo_test.go
( cd $WT && timeout 300 go test -count=1 -run "$RX" . >$L/b.log 2>&1 ); B=$?
rm -f $WT/zz_demo_test.go
echo "$N: demo-without-patch rc=$A (want 0)  suite-with-patch rc=$S (want 0)  demo-with-patch rc=$B (want !=0)"
SNAP=/tmp/seedchk2-verif-$N
rm -rf $SNAP; rsync -a --exclude .git --exclude .work --exclude replays --exclude __pycache__ /verif/ $SNAP/
cd $SNAP
for p in "$@"; do
  VERIF_REPO=$WT timeout 2400 ./check $p quick > $L/$p.log 2>&1; echo "$N: check $p rc=$?  $(grep -c '^VIOLATION' $L/$p.log) violations: $(grep '^VIOLATION' $L/$p.log | sed 's/replay=[^ ]* //' | cut -c1-200 | sort | uniq -c | sort -rn | head -3 | tr '\n' ';')"
done
cd /verif; rm -rf $SNAP
git -C /repo worktree remove --force $WT
