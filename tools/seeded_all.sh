#!/bin/bash
# Regression over the seeded changes: applies each one in a scratch worktree (VERIF_REPO) and runs the quick check of the
# property it was written against (C03-m2, outside C03's quantifier, is checked under C13).  Prints one line per change.
cd "$(dirname "$0")/.."
ROOT=$(pwd)
for d in seeded/*/; do
  id=$(basename $d); p=${id%%-*}; p=${p%r2}
  [ "$id" = "C03-m2" ] && p=C13
  [ "$id" = "C03-m1" ] && p=C09
  WT=/tmp/seedall-$$-$id
  git -C /repo worktree add -q --detach $WT HEAD || { echo "$id worktree failed"; continue; }
  ( cd $WT && git apply $ROOT/$d/patch.diff ) || { echo "$id patch does not apply"; git -C /repo worktree remove --force $WT; continue; }
  VERIF_REPO=$WT timeout 1800 ./check $p quick > /tmp/seedall-$id.log 2>&1; rc=$?
  echo "$id under $p rc=$rc violations=$(grep -c '^VIOLATION' /tmp/seedall-$id.log) $(grep -m1 '^VIOLATION' /tmp/seedall-$id.log | sed 's/.*rule=//' | cut -c1-80)"
  git -C /repo worktree remove --force $WT
done
