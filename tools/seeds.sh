#!/bin/bash
# runs the quick tier of every check for several seeds; prints anything that is not rc=0
cd "$(dirname "$0")/.."
for sd in "$@"; do
  for p in $(python3 -c "import json; print(' '.join(c['property_id'] for c in json.load(open('MANIFEST.json'))['checks']))"); do
    VERIF_SEED=$sd ./check $p quick > /tmp/seeds-$p-$sd.log 2>&1; rc=$?
    echo "seed=$sd $p rc=$rc viol=$(grep -c '^VIOLATION' /tmp/seeds-$p-$sd.log) $(grep -m2 '^VIOLATION\|^INFRA' /tmp/seeds-$p-$sd.log | cut -c1-200)"
  done
done
