import sys, json, time, collections
sys.path.insert(0,'/verif')
from vlib import core, gen
fams = sys.argv[1].split(',')
n = int(sys.argv[2]); seed=int(sys.argv[3]) if len(sys.argv)>3 else 1
wd = core.workdir('try')
t0=time.time()
b = core.build_harness(wd)
scs = gen.batch(seed, [(f,n) for f in fams])
json.dump(scs, open(wd+'/scs.json','w'))
tr = core.run_scenarios(b, wd, scs)
t1=time.time()
bad, st, trn, nev = core.run_obs(tr, wd)
print('build+run %.1fs obs %.1fs traces %d events %d states %d'%(t1-t0, time.time()-t1, len(tr), nev, st))
c = collections.Counter((x['p'],x['r'],x['tr'].split('-')[0]) for x in bad)
for k,v in sorted(c.items()): print(v,k)
json.dump(bad, open(wd+'/bad.json','w'), indent=0)
print(wd)
