"""C09 / C11 (sequential part): BarState.tla is model-checked by TLC, its complete labelled
transition relation is emitted by TLC, and every transition is replayed on a real *mpb.Bar
(path from an initial state + the edge); what the getters return after every call must be
explained by the specification (subset construction, because after a terminal event the
bar's goroutine may or may not still apply a call)."""
import json
import os
import random
import re
import shutil
import subprocess
import time
from collections import defaultdict, deque
from concurrent.futures import ThreadPoolExecutor

from . import core

SCALES = (1, 1, 1, 1, 1, 1, 1, 1, 1 << 33, 1 << 59)

KEYS = ("total", "current", "refill", "trig", "aborted", "rm", "phase")


def key(p):
    return tuple(p[k] for k in KEYS)


def tlc_check(cfg, wd, workers=8):
    rc, out = core.run_tlc(core.SPECS, "MCBarState.tla", cfg, workers=workers, timeout=900)
    st, tr = core.tlc_stats(out)
    return rc, out, st, tr


def max_scale(total, ops):
    """The largest power of two by which a walk can be multiplied with every number the rules compute on the way (totals,
    counters, arguments, and the sum an increment forms before it is capped) still inside int64.  The rules are simulated as
    if every call were applied (a dropped call only keeps older, smaller-or-equal values alive)."""
    cur, trig, m = 0, total > 0, abs(total)
    for (op, a, fl) in ops:
        m = max(m, abs(a))
        if op == "incr":
            m = max(m, abs(cur + a))
            cur = total if trig and cur + a >= total else cur + a
        elif op == "setcur" and a >= 0:
            cur = total if trig and a >= total else a
        elif op == "settotal" and not trig:
            total = cur if a < 0 else a
            if fl:
                cur, trig = total, True
        elif op == "trigger" and not trig:
            trig = True
            if cur >= total:
                cur = total
        elif op == "abort":
            trig = True
        m = max(m, abs(cur), abs(total))
    sc = 1 << 62
    while m * sc > (1 << 63) - 1:
        sc >>= 1
    return sc


IND_OBLIGATIONS = [("IndInit", "IndInv", 1), ("UInit", "IndInv", 0)] + [("IndInit", a, 1) for a in (
    "ActCompletedStable", "ActAbortedStable", "ActNoCompletionWithoutTrigger", "ActAbortNoEffectOnCompleted", "ActAdoptKeepsCounter",
    "ActSetTotalIgnoredWhenTriggered", "ActTerminalForEver", "ActIncrementAccumulates", "ActNegativeSetCurrentIgnored")]


def apalache_ind(wd):
    """BarInd.tla: the rules of BarRules.tla for every integer.  Apalache discharges the inductive invariant (initial
    states; one step from any state that satisfies it) and every action property as a one-step obligation, and - so that
    the run is not vacuous - finds the two-call counterexample to Exclusive in the rules as they were before the repair."""
    def one(ob):
        init, inv, length, cinit, want = ob
        d = os.path.join(wd, "apa-%s-%s-%s" % (init, inv, cinit))
        os.makedirs(d, exist_ok=True)
        for f in ("BarRules.tla", "BarInd.tla"):
            shutil.copy(os.path.join(core.SPECS, f), d)
        cmd = ["apalache-mc", "check", "--cinit=" + cinit, "--init=" + init, "--next=UNext", "--inv=" + inv, "--length=%d" % length,
               "--out-dir=" + os.path.join(d, "out"), "BarInd.tla"]
        try:
            p = subprocess.run(cmd, cwd=d, capture_output=True, text=True, timeout=600)
        except subprocess.TimeoutExpired:
            raise core.Infra("apalache timed out on " + inv)
        m = re.search(r"EXITCODE: (\w+)", p.stdout)
        got = m.group(1) if m else "none"
        if got != want:
            raise core.Infra("apalache: %s from %s (%s) is %s, expected %s:\n%s" % (inv, init, cinit, got, want, p.stdout[-1500:]))
        return inv
    obs = [(i, v, l, "ConstInit", "OK") for (i, v, l) in IND_OBLIGATIONS] + [("UInit", "Exclusive", 2, "ConstInitOrig", "ERROR")]
    with ThreadPoolExecutor(max_workers=6) as ex:
        done = list(ex.map(one, obs))
    return done


def edges_from_tlc(cfg):
    rc, out = core.run_tlc(core.SPECS, "MCBarState.tla", cfg, workers=1, timeout=1800, java_opts="-Xss64m")
    if rc != 0:
        raise core.Infra("TLC failed on %s:\n%s" % (cfg, out[-2000:]))
    edges = []
    for m in re.finditer(r'<<"EDGE", "(.*)">>', out):
        s = m.group(1).replace('\\"', '"').replace("\\\\", "\\")
        edges.append(json.loads(s))
    st, tr = core.tlc_stats(out)
    return edges, st, tr


def build(edges):
    succ = defaultdict(list)  # from key -> [(label, to key, to proj)]
    proj = {}
    for e in edges:
        f, t = key(e["from"]), key(e["to"])
        proj[f] = e["from"]
        proj[t] = e["to"]
        lab = (e["lab"]["op"], e["lab"]["a"], e["lab"]["f"])
        succ[f].append((lab, t))
    return succ, proj


def inits(proj):
    return [k for k, p in proj.items() if p["phase"] == "live" and p["current"] == 0 and p["refill"] == 0
            and not p["aborted"] and not p["rm"] and p["trig"] == (p["total"] > 0)]


def bfs_paths(succ, roots):
    path = {r: [] for r in roots}
    root = {r: r for r in roots}
    dq = deque(roots)
    while dq:
        s = dq.popleft()
        for lab, t in succ.get(s, []):
            if t not in path:
                path[t] = path[s] + [lab]
                root[t] = root[s]
                dq.append(t)
    return path, root


def run_go(binary, wd, seqs, jobs):
    chunks = [seqs[i::jobs] for i in range(jobs)]

    def one(i):
        inp = os.path.join(wd, "bs-%d.in" % i)
        outp = os.path.join(wd, "bs-%d.out" % i)
        with open(inp, "w") as f:
            for s in chunks[i]:
                f.write(json.dumps(s) + "\n")
        p = subprocess.run([binary, "-test.run", "^TestBarSeq$", "-test.timeout", "0"], env=dict(os.environ, VH_IN=inp, VH_OUT=outp),
                           capture_output=True, text=True, timeout=1800)
        if p.returncode != 0:
            raise core.Infra("bar sequence worker failed: " + (p.stdout + p.stderr)[-2000:])
        return [json.loads(l) for l in open(outp)]

    res = {}
    with ThreadPoolExecutor(max_workers=jobs) as ex:
        for lst in ex.map(one, range(jobs)):
            for o in lst:
                res[o["id"]] = o["obs"]
    return res


def explain(succ, proj, start, ops, obs):
    """Subset construction over the specification's transition relation.  Returns None when the
    observations are explained, else (index, allowed-before, observed)."""
    def exits(S):
        out = set(S)
        for s in S:
            if proj[s]["phase"] == "term":
                for lab, t in succ.get(s, []):
                    if lab[0] == "exit":
                        out.add(t)
        return out
    allowed = {start}
    for i, (lab, ob) in enumerate(zip(ops, obs)):
        nxt = set()
        if lab[0] == "exit":
            # Bar.Wait(): the goroutine has published its state by the time it returns
            nxt = {s for s in exits(allowed) if proj[s]["phase"] == "exited"}
        else:
            for s in exits(allowed):
                for l2, t in succ.get(s, []):
                    if l2 == lab:
                        nxt.add(t)
            nxt = exits(nxt)
        ok = {t for t in nxt if proj[t]["current"] == ob[0] and int(proj[t]["completed"]) == ob[1] and int(proj[t]["aborted"]) == ob[2]
              and (len(ob) < 4 or ob[3] < 0 or proj[t]["refill"] == ob[3])}
        if not ok:
            return i, allowed, ob
        allowed = ok
    return None


def run(prop, tier, seed):
    t0 = time.time()
    wd = core.workdir(prop)
    import shutil
    try:
        binary = core.build_harness(wd)
        lines, nviol = [], 0
        # 1. the rules themselves: invariants and action properties on the specification
        rc, out, st1, tr1 = tlc_check("BarState.cfg", wd)
        if rc != 0:
            raise core.Infra("BarState.tla does not satisfy its own properties (model defect):\n" + out[-3000:])
        # 1b. the same rules for every integer, by Apalache
        proved = apalache_ind(wd)
        # 2. the transition relation, by TLC
        edges, st2, tr2 = edges_from_tlc("BarStateEdges.cfg" if tier == "thorough" else "BarStateEdgesQuick.cfg")
        succ, proj = build(edges)
        roots = inits(proj)
        path, root = bfs_paths(succ, roots)
        rng = random.Random(seed)
        cand = []
        for f in succ:
            if f not in path:
                continue
            for lab, t in succ[f]:
                cand.append((f, lab))
        rng.shuffle(cand)
        limit = len(cand) if tier == "thorough" else min(len(cand), 30000)
        seqs, meta = [], {}
        for i, (f, lab) in enumerate(cand[:limit]):
            ops = path[f] + [lab]
            # simple and exact: the sequence is path + edge (+ random continuation drawn from the relation)
            cont = []
            s = None
            for l2, t in succ[f]:
                if l2 == lab:
                    s = t
                    break
            for _ in range(rng.randint(0, 3)):
                nx = succ.get(s, [])
                if not nx:
                    break
                l2, s = rng.choice(nx)
                cont.append(l2)
            ops = ops + cont
            # one walk in five is executed with every number multiplied by 2^33 or by the largest power of two that keeps
            # every number of this walk inside int64 (2^59 .. 2^62): the rules are homogeneous, BarInd.tla has them for every integer
            scale = rng.choice(SCALES)
            if scale == 1 << 59:
                scale = max_scale(proj[root[f]]["total"], ops)
            seqs.append({"id": i, "total": proj[root[f]]["total"], "scale": scale, "ops": [{"op": o, "a": a, "f": fl} for (o, a, fl) in ops]})
            meta[i] = (root[f], ops)
        obs = run_go(binary, wd, seqs, core.NCPU)
        covered = set()
        fails = []
        for i, (r0, ops) in meta.items():
            res = explain(succ, proj, r0, ops, obs[i])
            if res is None:
                continue
            idx, allowed, ob = res
            fails.append((i, idx, allowed, ob))
        os.makedirs(os.path.join(core.ROOT, "replays"), exist_ok=True)
        for (i, idx, allowed, ob) in fails[:10]:
            r0, ops = meta[i]
            live = all(proj[s]["phase"] == "live" for s in allowed)
            which = "C09" if live else "C11"
            path_ = os.path.join(core.ROOT, "replays", "%s-barseq-%d.json" % (prop, i))
            json.dump({"property": prop, "kind": "barseq", "total": proj[r0]["total"], "scale": seqs[i]["scale"], "ops": ops[:idx + 1], "observed": ob,
                       "allowed_before": [proj[s] for s in allowed]}, open(path_, "w"), default=str)
            if which == prop or prop == "C09":
                lines.append("VIOLATION property=%s replay=%s rule=getters-disagree-with-BarState after %s got cur=%d completed=%d aborted=%d refill=%s" % (
                    prop, path_, ops[:idx + 1][-3:], ob[0], ob[1], ob[2], ob[3] if len(ob) > 3 and ob[3] >= 0 else "unobserved"))
        if prop == "C09":
            nviol = len(fails)
        else:
            nviol = sum(1 for (i, idx, allowed, ob) in fails if not all(proj[s]["phase"] == "live" for s in allowed))
        cov = {"states": st1 + st2, "transitions": tr1 + tr2, "traces_validated_against_impl": len(seqs),
               "samples": [{"total": s["total"], "ops": s["ops"], "observed": obs[s["id"]]} for s in seqs[:3]],
               "evaluations": len(seqs), "refill_marks_observed": sum(1 for s in seqs for o in obs[s["id"]] if len(o) > 3 and o[3] >= 0), "distinct_nontrivial": len({json.dumps(s["ops"]) + str(s["total"]) for s in seqs if len(s["ops"]) > 1}),
               "rule": "every transition of BarState.tla emitted by TLC (quick: a seeded sample of %d of %d) is replayed on a real bar as "
                       "BFS path + edge + up to 3 random further edges; non-trivial = at least two calls" % (limit, len(cand)),
               "scaled_walks": sum(1 for s in seqs if s["scale"] > 1), "scales": sorted({s["scale"] for s in seqs}),
               "unbounded_obligations_discharged_by_apalache": proved,
               "exhaustive": tier == "thorough", "edges": len(cand), "spec_states": len(proj),
               "checker_cmd": "tlc MCBarState.tla (BarState.cfg, BarStateEdges.cfg); apalache-mc check BarInd.tla (inductive invariant + action properties, unbounded integers); harness.test TestBarSeq"}
        return cov, lines, nviol, time.time() - t0
    finally:
        shutil.rmtree(wd, ignore_errors=True)


def replay(d):
    """Re-runs one recorded call sequence on a real bar and explains it with the complete transition relation."""
    import shutil
    wd = core.workdir("replay")
    try:
        binary = core.build_harness(wd)
        edges, _, _ = edges_from_tlc("BarStateEdges.cfg")
        succ, proj = build(edges)
        roots = [r for r in inits(proj) if proj[r]["total"] == d["total"]]
        if not roots:
            raise core.Infra("initial total %s is outside the specification's constants" % d["total"])
        ops = [tuple(o) for o in d["ops"]]
        seqs = [{"id": 0, "total": d["total"], "scale": d.get("scale", 1), "ops": [{"op": o, "a": a, "f": fl} for (o, a, fl) in ops]}]
        obs = run_go(binary, wd, seqs, 1)
        res = explain(succ, proj, roots[0], ops, obs[0])
        if res is None:
            print("replayed %d calls: the getters agree with BarState.tla (recorded: %s)" % (len(ops), d.get("observed")))
            return 0
        idx, allowed, ob = res
        print("BROKEN after %s: got %s, BarState.tla allows %s" % (ops[:idx + 1], ob, sorted({(proj[s]["current"], proj[s]["completed"], proj[s]["aborted"], proj[s]["refill"]) for s in allowed})[:6]))
        return 1
    finally:
        shutil.rmtree(wd, ignore_errors=True)
