"""Shared machinery: build the harness from /repo's working tree, run scenario workers,
run TLC (model checking, simulation, monitors over recorded traces), write evidence."""
import json
import os
import re
import shutil
import subprocess
import sys
import tempfile
import time
from concurrent.futures import ThreadPoolExecutor

ROOT = os.path.dirname(os.path.dirname(os.path.abspath(__file__)))
REPO = os.environ.get("VERIF_REPO", "/repo")
SPECS = os.path.join(ROOT, "specs")
HARNESS = os.path.join(ROOT, "harness")
NCPU = int(os.environ.get("VERIF_JOBS", os.cpu_count() or 4))

GOENV = dict(os.environ, GOFLAGS="-mod=mod", GOPROXY="off", GOSUMDB="off", GOTOOLCHAIN="local",
             CGO_ENABLED=os.environ.get("CGO_ENABLED", "0"))


class Infra(Exception):
    """The machinery itself failed (build, tool crash, time-out): exit 2, never a violation."""


def workdir(tag):
    base = os.path.join(ROOT, ".work")
    os.makedirs(base, exist_ok=True)
    return tempfile.mkdtemp(prefix=tag + "-", dir=base)


def build_harness(wd, race=False):
    """Builds the scenario worker against /repo's current working tree with the hooks on."""
    shutil.copy(os.path.join(REPO, "go.sum"), os.path.join(HARNESS, "go.sum"))
    out = os.path.join(wd, "harness.race.test" if race else "harness.test")
    cmd = ["go1.26", "test", "-c", "-tags", "verif", "-o", out]
    env = dict(GOENV)
    if race:
        cmd.insert(2, "-race")
        env["CGO_ENABLED"] = "1"
    cmd.append(".")
    mod = open(os.path.join(HARNESS, "go.mod")).read()
    if REPO != "/repo":
        # an alternative tree (used when validating seeded changes): private copy of the module
        h2 = os.path.join(wd, "harness-src-race" if race else "harness-src")
        shutil.copytree(HARNESS, h2, dirs_exist_ok=True)
        open(os.path.join(h2, "go.mod"), "w").write(mod.replace("=> /repo", "=> " + REPO))
        cwd = h2
    else:
        cwd = HARNESS
    p = subprocess.run(cmd, cwd=cwd, env=env, capture_output=True, text=True)
    if p.returncode != 0:
        raise Infra("harness build failed:\n" + p.stdout + p.stderr)
    return out


def _run_chunk(binary, wd, idx, scenarios, timeout):
    inp = os.path.join(wd, "sc-%d.ndjson" % idx)
    outp = os.path.join(wd, "ev-%d.ndjson" % idx)
    with open(inp, "w") as f:
        for sc in scenarios:
            f.write(json.dumps(sc) + "\n")
    if os.path.exists(outp):
        os.remove(outp)
    start = 0
    crashes = {}
    deadline = time.time() + timeout
    while start < len(scenarios):
        env = dict(os.environ, VH_IN=inp, VH_OUT=outp, VH_FROM=str(start), GORACE="halt_on_error=1")
        try:
            p = subprocess.run([binary, "-test.run", "^TestWorker$", "-test.timeout", "0"], env=env, capture_output=True,
                               text=True, timeout=max(5, deadline - time.time()))
        except subprocess.TimeoutExpired:
            raise Infra("scenario worker timed out (chunk %d from %d)" % (idx, start))
        # find the last scenario started
        last_start, last_finish = None, None
        with open(outp) as f:
            for line in f:
                if line.startswith('{"ev":"start"') or '"ev":"start"' in line[:40]:
                    last_start = json.loads(line)
                elif '"ev":"finish"' in line[:60]:
                    last_finish = json.loads(line)
        if p.returncode == 0:
            break
        if last_start is None:
            raise Infra("worker failed before the first scenario: " + p.stderr[-2000:])
        if last_finish is not None and last_finish["idx"] == last_start["idx"]:
            # orderly exit after a hang
            start = last_start["idx"] + 1
            continue
        if "WARNING: DATA RACE" in p.stderr:
            # the race detector stopped the worker (GORACE=halt_on_error=1)
            rep = p.stderr[p.stderr.index("WARNING: DATA RACE"):][:6000]
            frames = re.findall(r"^  (\S+)\(", rep, re.M)
            libf = [x for x in frames if "vbauerster/mpb" in x]
            with open(outp, "a") as f:
                f.write(json.dumps({"ev": "race", "tr": last_start["tr"], "seq": 10 ** 9, "msg": " | ".join(libf[:8]),
                                    "lib": bool(libf), "report": rep}) + "\n")
                f.write(json.dumps({"ev": "finish", "tr": last_start["tr"], "idx": last_start["idx"], "fatal": "race"}) + "\n")
            start = last_start["idx"] + 1
            continue
        # the process died inside a scenario: a panic in a library goroutine (or a fatal error)
        crashes[last_start["tr"]] = p.stderr[-6000:]
        with open(outp, "a") as f:
            msg = p.stderr
            m = re.search(r"(panic: .*|fatal error: .*)", msg)
            f.write(json.dumps({"ev": "panic", "tr": last_start["tr"], "seq": 10 ** 9, "msg": m.group(1) if m else "crash",
                                "lib": "vbauerster/mpb" in msg, "closedsend": "send on closed channel" in msg,
                                "stack": msg[-3000:]}) + "\n")
            f.write(json.dumps({"ev": "finish", "tr": last_start["tr"], "idx": last_start["idx"], "fatal": "crash"}) + "\n")
        start = last_start["idx"] + 1
    return outp, crashes


def run_scenarios(binary, wd, scenarios, jobs=None, chunk=40, timeout=900):
    """Runs the scenarios in parallel worker processes; returns {trace id: [events]}."""
    jobs = jobs or NCPU
    chunks = [scenarios[i:i + chunk] for i in range(0, len(scenarios), chunk)]
    traces = {}
    with ThreadPoolExecutor(max_workers=jobs) as ex:
        futs = [ex.submit(_run_chunk, binary, wd, i, c, timeout) for i, c in enumerate(chunks)]
        for fu in futs:
            outp, crashes = fu.result()
            with open(outp) as f:
                for line in f:
                    e = json.loads(line)
                    traces.setdefault(e["tr"], []).append(e)
    return traces


DROP = {"fmt", "fill", "hmreq", "rel", "step", "start", "finish", "flush", "skip", "bubble", "fairmode", "diverge", "ewma"}


def run_tlc(spec_dir, module, cfg, env=None, workers=1, timeout=600, extra=(), java_opts=None):
    """Runs TLC in a scratch copy of the spec directory; returns (rc, stdout)."""
    wd = tempfile.mkdtemp(prefix="tlc-", dir=os.path.join(ROOT, ".work"))
    try:
        for f in os.listdir(spec_dir):
            if f.endswith((".tla", ".cfg")):
                shutil.copy(os.path.join(spec_dir, f), wd)
        e = dict(os.environ)
        if env:
            e.update(env)
        if java_opts:
            e["JAVA_TOOL_OPTIONS"] = java_opts
        cmd = ["tlc", "-workers", str(workers), "-metadir", os.path.join(wd, "meta"), "-config", cfg] + list(extra) + [module]
        try:
            p = subprocess.run(cmd, cwd=wd, env=e, capture_output=True, text=True, timeout=timeout)
        except subprocess.TimeoutExpired:
            raise Infra("TLC timed out: %s %s" % (module, cfg))
        return p.returncode, p.stdout + p.stderr
    finally:
        shutil.rmtree(wd, ignore_errors=True)


def tlc_stats(out):
    m = re.search(r"(\d+) states generated, (\d+) distinct states found", out)
    if not m:
        return 0, 0
    return int(m.group(2)), int(m.group(1))


def run_obs(traces, wd, batch_events=15000):
    """Judges recorded executions with the observable monitor Obs.tla (TLC, one run per batch)."""
    os.makedirs(os.path.join(ROOT, ".work"), exist_ok=True)
    batches, cur, n = [], [], 0
    for tr, evs in traces.items():
        keep = [e for e in evs if e["ev"] not in DROP]
        cur.extend(keep)
        n += len(keep)
        if n >= batch_events:
            batches.append(cur)
            cur, n = [], 0
    if cur:
        batches.append(cur)

    def one(i):
        tf = os.path.join(wd, "obs-%d.ndjson" % i)
        of = os.path.join(wd, "obs-%d.out.json" % i)
        with open(tf, "w") as f:
            for e in batches[i]:
                f.write(json.dumps(e) + "\n")
        rc, out = run_tlc(SPECS, "Obs.tla", "Obs.cfg", env={"OBS_TRACE": tf, "OBS_OUT": of}, workers=1, timeout=1200,
                          java_opts="-Xss256m")
        if rc != 0 or not os.path.exists(of):
            raise Infra("Obs.tla did not consume batch %d (rc=%d):\n%s" % (i, rc, out[-3000:]))
        st, tr_ = tlc_stats(out)
        return json.load(open(of)), st, tr_

    bad, states, trans = [], 0, 0
    with ThreadPoolExecutor(max_workers=max(1, NCPU // 2)) as ex:
        for b, s, t in ex.map(one, range(len(batches))):
            bad.extend(b)
            states += s
            trans += t
    return bad, states, trans, sum(len(b) for b in batches)


def apalache(wd, files, module, nxt, obligations, cinit=None, jobs=6):
    """Runs `apalache-mc check` once per obligation (init, invariant, length, expected exit) on a private copy of `files`;
    anything but the expected outcome is a failure of the machinery (a specification that does not satisfy its own properties)."""
    import re
    import shutil
    import subprocess
    from concurrent.futures import ThreadPoolExecutor

    def one(ob):
        init, inv, length, want = ob
        d = os.path.join(wd, "apa-%s-%s-%s" % (module, init, inv))
        os.makedirs(d, exist_ok=True)
        for f in files:
            shutil.copy(os.path.join(SPECS, f), d)
        cmd = ["apalache-mc", "check"] + (["--cinit=" + cinit] if cinit else []) + ["--init=" + init, "--next=" + nxt, "--inv=" + inv,
                                                                                   "--length=%d" % length, "--out-dir=" + os.path.join(d, "out"), module + ".tla"]
        try:
            p = subprocess.run(cmd, cwd=d, capture_output=True, text=True, timeout=600)
        except subprocess.TimeoutExpired:
            raise Infra("apalache timed out on " + inv)
        m = re.search(r"EXITCODE: (\w+)", p.stdout)
        got = m.group(1) if m else "none"
        if got != want:
            raise Infra("apalache: %s from %s is %s, expected %s:\n%s" % (inv, init, got, want, p.stdout[-1500:]))
        return inv
    with ThreadPoolExecutor(max_workers=jobs) as ex:
        return list(ex.map(one, obligations))


def write_evidence(prop, tier, seed, level, coverage, assumptions, wall, violations):
    # evidence/ describes /repo itself; a run against another tree (VERIF_REPO: a seeded change in a scratch worktree) writes elsewhere
    edir = "evidence" if REPO == "/repo" else os.path.join(".work", "evidence-other-tree")
    os.makedirs(os.path.join(ROOT, edir), exist_ok=True)
    ev = {"property_id": prop, "tier": tier, "seed": seed, "level": level, "coverage": coverage,
          "assumptions": assumptions, "wall_s": round(wall, 2), "violations": violations}
    with open(os.path.join(ROOT, edir, prop + ".json"), "w") as f:
        json.dump(ev, f, indent=1)
    return ev
