"""Binding of MPBCore.tla to the code: one description of a configuration (container options + client
programs) is turned into (a) an MC module + cfg for TLC and (b) a harness scenario; TLC behaviours
(counterexamples, simulation runs) become gate schedules replayed on the real library; gate traces
recorded from the real library are validated against the specification."""
import json
import os
import re
import shutil
import subprocess
import tempfile

from . import core

# ---------------------------------------------------------------- configurations


def add(total=1, sync=False, rm=False, nopop=False, after=0, fail=0, sd=None, prio=None, failkind="fill", ln=None):
    """sd: synchronised decorators, ln: decorators that listen for the bar's shutdown; both as (side, index) pairs"""
    return {"op": "add", "total": total, "sync": sync, "rm": rm, "nopop": nopop, "after": after, "fail": fail, "sd": sd, "prio": prio,
            "failkind": failkind, "ln": ln or []}


def incr(b, n=1):
    return {"op": "incr", "b": b, "n": n}


def abort(b, drop=False):
    return {"op": "abort", "b": b, "drop": drop}


def prio(b, v, lazy=False):
    return {"op": "prio", "b": b, "n": v, "drop": lazy}


def call(op):
    return {"op": op}


CONFIGS = {
    # name: (NB, Q, Pop, programs, MaxTicks)
    "sync2":  (2, 2, False, [[add(1, True), add(1, True), incr(1), incr(2), call("wait")]], 4),
    "sync2q0": (2, 0, False, [[add(1, True), add(1, True), incr(1), incr(2), call("wait")]], 4),   # n > q: finding F1
    "sync2q1": (2, 1, False, [[add(1, True), add(1, True), incr(1), incr(2), call("wait")]], 4),
    "mixed2": (2, 2, False, [[add(1, True), add(2, False), incr(2), incr(1), incr(2), call("wait")]], 3),
    "write":  (1, 1, False, [[add(1), incr(1), call("wait")], [call("write"), call("write")]], 3),
    "rm":     (2, 2, False, [[add(1, False, True), add(1), incr(1), abort(2, False), call("wait")]], 3),
    "drop":   (2, 2, False, [[add(2, True), add(1, True), abort(1, True), incr(2), call("wait")]], 3),
    "queue":  (2, 2, False, [[add(1), add(1, after=1), incr(1), incr(2), call("wait")]], 3),
    "pop":    (2, 2, True,  [[add(1), add(1, nopop=True), incr(1), incr(2), call("wait")]], 3),
    "pop3":   (2, 2, True,  [[add(1, True), add(1, True), incr(2), incr(1), call("wait")]], 3),
    "shut":   (2, 2, False, [[add(2), add(1), incr(2), call("shutdown")], [incr(1), call("wait")]], 3),
    "two":    (2, 2, False, [[add(1), add(1), call("wait")], [incr(1), incr(2), call("write")]], 3),
    "q0":     (1, 0, False, [[add(1), incr(1), call("wait")]], 3),
    "prio":   (2, 2, False, [[add(2), add(2), prio(1, 5), incr(1, 2), incr(2, 2), call("wait")]], 3),
    "priolazy": (2, 2, False, [[add(2), add(2), incr(1, 2), incr(2, 2), call("wait")], [prio(1, 5, True)]], 3),
    "priolazyimm": (2, 2, False, [[add(2), add(2), incr(1, 2), incr(2, 2), call("wait")], [prio(1, 7, True), prio(1, -1)]], 3),   # a lazy change overtaken by an immediate one
    "prio3":  (3, 3, False, [[add(1), add(1), add(1), incr(1), incr(2), incr(3), call("wait")], [prio(1, 7, True), prio(3, 0)]], 2),
    "manual": (2, 2, False, [[add(1), add(2), call("refresh"), incr(1), call("refresh"), incr(2, 2), call("refresh"), call("wait")], [call("refresh"), call("refresh")]], 0, "manual"),
    "none":   (2, 2, False, [[add(1), add(2), incr(1), incr(2, 2), call("wait")], [abort(2, False), call("write")]], 0, "none"),
    "manualsync": (2, 2, False, [[add(1, True), add(1, True), call("refresh"), incr(1), incr(2), call("refresh"), call("refresh"), call("wait")]], 0, "manual"),
    "latequeue": (2, 2, False, [[add(1), incr(1), add(1, after=1), incr(2), call("wait")]], 4),   # finding F2b (livelock: liveness only)
    "twosucc": (3, 3, False, [[add(1), add(1, after=1), add(1, after=1), incr(1), incr(2), incr(3), call("wait")]], 3),   # finding F2a
    "cols":   (2, 2, False, [[add(1, sd=[("p", 0), ("p", 1), ("a", 0)]), add(1, sd=[("p", 1), ("a", 1)]), incr(1), incr(2), call("wait")]], 2),   # uneven columns on both sides
    "write2": (1, 1, False, [[add(1), incr(1), call("wait")], [{"op": "write", "n": 2}, call("write")]], 3),   # a line written in two calls
    "fault1": (2, 2, False, [[add(2, fail=2), add(1), incr(2), incr(1), call("wait")]], 3),           # a filler error, no synced decorators
    "fault2": (2, 2, False, [[add(2), add(1, fail=1), incr(1), call("wait")], [call("write")]], 3),
    "faultsync": (3, 3, False, [[add(2, True), add(2, True), add(2, fail=1), call("wait")]], 2),    # finding F5
    "faultext": (2, 2, False, [[add(2, failkind="ext", fail=2), add(1), incr(2), incr(1), call("wait")]], 3),
    "faultout": (2, 2, False, [[add(2), add(1), incr(2), incr(1), call("wait")], [call("write")]], 3, "auto", 2),
    "three":  (3, 3, False, [[add(1, True), add(1, True), add(1), incr(1), incr(2), incr(3), call("wait")]], 2),
    # SetPriority on a bar that has left the heap (remove-on-complete): the stale heap index must be ignored
    "priorm": (2, 2, False, [[add(1, rm=True), add(2), incr(1), {"op": "barwait", "b": 1}, prio(1, 5), incr(2, 2), call("wait")]], 4),
    # shutdown listeners: Wait must not return while one of them is still inside OnShutdown
    "listen": (2, 2, False, [[add(1, ln=[("p", 0)]), add(1, ln=[("p", 0), ("a", 0)]), incr(1), incr(2), call("wait")]], 3),
    "listenshut": (2, 2, False, [[add(2, ln=[("a", 0)]), add(1, sd=[("p", 0)], ln=[("p", 0)]), incr(2), call("shutdown")], [incr(1), call("wait")]], 3),
    # a user wait group: the worker finishes the bars and calls Done; Wait sees the bars through their last frames
    "uwg":    (2, 2, False, [[add(1, rm=True), add(1), call("wait")], [incr(1), incr(2)]], 3, "auto", 0, True),
    # pop mode with a queued bar: the finished predecessor hands over instead of being popped, a bar that finishes later is popped
    # above the successor that is still running
    "popqueue": (3, 3, True, [[add(1), add(2, after=1), add(1), incr(1), incr(3), incr(2, 2), call("wait")]], 3),
    # finding F11: a priority change on a finished bar between its second and third terminal frame overrides the pop priority
    "popprio": (2, 2, True, [[add(1), add(2), incr(1), call("wait")], [prio(1, 5), incr(2, 2)]], 4),
    "priopop": (2, 2, True, [[add(1), add(2), incr(1), call("wait")], [{"op": "barwait", "b": 1}, prio(1, -3), prio(2, 4), incr(2, 2)]], 4),
}


def tla_op(o):
    sd = o.get("sd")
    if sd is None:
        sd = [("p", 0)] if o.get("sync") else []
    f = {"op": o["op"], "b": o.get("b", 0), "n": o.get("n", 0), "drop": o.get("drop", False), "total": o.get("total", 0),
         "rm": o.get("rm", False), "nopop": o.get("nopop", False), "sd": [tuple(x) for x in sd], "ln": [tuple(x) for x in (o.get("ln") or [])], "after": o.get("after", 0),
         "hasprio": o.get("prio") is not None, "prio": o.get("prio") or 0}

    def v(x):
        if isinstance(x, bool):
            return "TRUE" if x else "FALSE"
        if isinstance(x, str):
            return '"%s"' % x
        if isinstance(x, list):
            return "<< " + ", ".join('[side |-> "%s", idx |-> %d]' % (a, b) for a, b in x) + " >>"
        if isinstance(x, int) and x < 0:
            return "(0 - %d)" % (-x)
        return str(x)
    return "[" + ", ".join("%s |-> %s" % (k, v(x)) for k, x in f.items()) + "]"


def write_model(wd, name, extra_cfg="", spec="Spec", invariants="NoPanic NoHang NoDupInFrame TextAtMostOnce TextWritten Quiescent ErrorReportedOnce NoRenderAfterError SortedFrames ListenersBeforeWait PoppedOnTop", sim=False, cfg=None):
    cfg = cfg or CONFIGS[name]
    nb, q, pop, progs, ticks = cfg[:5]
    refresh = cfg[5] if len(cfg) > 5 else "auto"
    progs = number_adds(progs)
    if sim:
        ticks = 12   # random walks waste ticks; the bound only has to keep a walk finite
    prog = "<< " + ", ".join("<< " + ", ".join(tla_op(o) for o in p) + " >>" for p in progs) + " >>"
    fault, nadd_ = '[kind |-> "fill", b |-> 1, at |-> 0]', 0
    for p_ in progs:
        for o in p_:
            if o["op"] == "add":
                nadd_ += 1
                if o.get("fail"):
                    fault = '[kind |-> "%s", b |-> %d, at |-> %d]' % (o.get("failkind", "fill"), nadd_, o["fail"])
    if len(cfg) > 6 and cfg[6]:
        fault = '[kind |-> "out", b |-> 1, at |-> %d]' % cfg[6]
    base = "MPBSim" if sim else "MPBCore"
    mod = "MCgen_%s" % name
    open(os.path.join(wd, mod + ".tla"), "w").write(
        "---- MODULE %s ----\nEXTENDS %s\nP == %s\nF == %s\nMT == %d\n====\n" % (mod, base, prog, fault, ticks))
    uwg = bool(cfg[7]) if len(cfg) > 7 else False
    cfg = ("SPECIFICATION %s\nCONSTANTS\n  NB = %d\n  Q = %d\n  Pop = %s\n  Prog <- P\n  Fault <- F\n  Refresh = \"%s\"\n  UWG = %s\n  MaxTicks <- MT\n%s"
           "CHECK_DEADLOCK FALSE\n" % (spec, nb, q, "TRUE" if pop else "FALSE", refresh, "TRUE" if uwg else "FALSE", extra_cfg))
    if invariants:
        cfg += "INVARIANTS " + invariants + "\n"
    open(os.path.join(wd, mod + ".cfg"), "w").write(cfg)
    for f in ("MPBCore.tla", "MPBSim.tla", "MPBTrace.tla"):
        if os.path.exists(os.path.join(core.SPECS, f)):
            shutil.copy(os.path.join(core.SPECS, f), wd)
    return mod


def scenario(name, sid, steps=None, mode="replay", seed=1, stats=True):
    """The same configuration as a harness scenario (bars b1..bn, clients 0-based)."""
    nb, q, pop, progs, ticks = CONFIGS[name][:5]
    refresh = CONFIGS[name][5] if len(CONFIGS[name]) > 5 else "auto"
    clients, nadd = [], 0
    for p in progs:
        ops = []
        for o in p:
            if o["op"] == "add":
                nadd += 1
                h = {"op": "add", "b": "b%d" % nadd, "total": o["total"]}
                sd = o.get("sd")
                if sd is None:
                    sd = [("p", 0)] if o.get("sync") else []
                ln = o.get("ln") or []
                for side, key in (("p", "pre"), ("a", "app")):
                    idxs = [i for (sd_side, i) in sd if sd_side == side]
                    lidx = [i for (ln_side, i) in ln if ln_side == side]
                    if idxs or lidx:
                        h[key] = [{"sync": k in idxs, "w": 0, "space": False, "right": False, "needs": [1, 2], "listen": k in lidx,
                                   "ewma": False, "wrap": []} for k in range(max(idxs + lidx) + 1)]
                if o.get("prio") is not None:
                    h["prio"] = o["prio"]
                if o.get("rm"):
                    h["rm"] = True
                if o.get("nopop"):
                    h["nopop"] = True
                if o.get("after"):
                    h["after"] = "b%d" % o["after"]
                if o.get("fail"):
                    h["fault"] = {"kind": o.get("failkind", "fill"), "at": o["fail"]}
                ops.append(h)
            elif o["op"] == "incr":
                ops.append({"op": "incr", "b": "b%d" % o["b"], "n": o["n"]})
            elif o["op"] == "abort":
                ops.append({"op": "abort", "b": "b%d" % o["b"], "flag": o.get("drop", False)})
            elif o["op"] == "prio":
                ops.append({"op": "prio", "b": "b%d" % o["b"], "n": o["n"], "flag": o.get("drop", False)})
            elif o["op"] == "write":
                ops.append({"op": "write", "line": "T|%d|%d" % (len(clients), len(ops))})
                if o.get("n") == 2:
                    ops[-1]["chunks"] = True
            elif o["op"] in ("barwait", "get"):
                ops.append({"op": o["op"], "b": "b%d" % o["b"]})
            else:
                ops.append({"op": o["op"]})
        clients.append(ops)
    return {"id": sid, "family": "core:" + name,
            "cfg": {"q": q, "refresh": refresh, "pop": pop, "notifier": False, "width": 120, "delay": False,
                    "outfault": CONFIGS[name][6] if len(CONFIGS[name]) > 6 else 0, "ctx": False,
                    "uwg": bool(CONFIGS[name][7]) if len(CONFIGS[name]) > 7 else False},
            "clients": clients,
            "sched": {"mode": mode, "seed": seed, "tickw": 1, "steps": steps or [], "budget": 0, "bias": []}, "stats": stats}


def number_adds(progs):
    """every Add carries the index of the bar it creates (program order of the Adds of client 0 first)"""
    out, n = [], 0
    for p in progs:
        q = []
        for o in p:
            if o["op"] == "add":
                n += 1
                o = dict(o, b=n)
            q.append(o)
        out.append(q)
    return out


def scenario_to_config(sc):
    """A generated scenario as an MPBCore configuration, or None when it uses something the specification does not model yet."""
    c = sc["cfg"]
    outfault = c.get("outfault") or 0
    if outfault > 3:
        return None
    names, progs, fault_seen = {}, [], False
    for ci, prog in enumerate(sc["clients"]):
        for o in prog:
            if o["op"] == "add":
                if ci != 0:
                    return None
                names[o["b"]] = len(names) + 1
    for prog in sc["clients"]:
        q = []
        for o in prog:
            op = o["op"]
            b = names.get(o.get("b"), 0)
            if op == "add":
                sd, ln = [], []
                for side, key in (("p", "pre"), ("a", "app")):
                    for i, d in enumerate(o.get(key) or []):
                        if d.get("sync"):
                            sd.append((side, i))
                        if d.get("listen") and not d.get("avg"):
                            ln.append((side, i))
                fail, failkind = 0, "fill"
                if o.get("fault"):
                    if o["fault"]["kind"] not in ("fill", "ext") or fault_seen or outfault:
                        return None
                    fault_seen = True
                    if o["fault"]["at"] <= 0:
                        return None   # "the first Fill after closing": not in the specification's vocabulary
                    fail, failkind = o["fault"]["at"], o["fault"]["kind"]
                q.append(add(o.get("total", 0), rm=o.get("rm", False), nopop=o.get("nopop", False), after=names.get(o.get("after"), 0),
                             fail=fail, sd=sd, prio=o.get("prio"), failkind=failkind, ln=ln))
            elif op in ("incr", "ewma"):
                q.append({"op": "incr", "b": b, "n": o.get("n", 0)})
            elif op in ("setcur", "refill"):
                q.append({"op": op, "b": b, "n": o.get("n", 0)})
            elif op == "settotal":
                q.append({"op": op, "b": b, "n": o.get("n", 0), "drop": o.get("flag", False)})
            elif op == "trigger":
                q.append({"op": op, "b": b})
            elif op == "abort":
                q.append({"op": op, "b": b, "drop": o.get("flag", False)})
            elif op == "prio":
                q.append({"op": op, "b": b, "n": o.get("n", 0), "drop": o.get("flag", False)})
            elif op in ("get", "barwait"):
                q.append({"op": op, "b": b})
            elif op in ("getcur", "getcomp", "getab"):
                q.append({"op": "get1", "b": b})
            elif op in ("write", "wait", "shutdown", "cancel", "refresh"):
                q.append({"op": op, "n": 2} if o.get("chunks") else {"op": op})   # (several lines in one call are one call)
            elif op == "closerefresh":
                return None   # a closed refresh channel (refreshes without end): not in the specification
            elif op == "delayend":
                q.append({"op": "nop"})     # the render delay only swaps the writer: no gate is involved
            else:
                return None
        progs.append(q)
    if not names:
        return None
    return (len(names), 128 if c["q"] < 0 else c["q"], c["pop"], progs, 0, c["refresh"], outfault, bool(c.get("uwg")))


# ---------------------------------------------------------------- labels

def to_harness(lab):
    """MPBCore label -> harness gate label."""
    if lab == "tick":
        return "tick"
    m = re.match(r"^(fmt:send|dist:start|dist:mid|us:listen):(\d+)([pa]\d+)$", lab)
    if m:
        return "%s:b%s%s" % (m.group(1), m.group(2), m.group(3))
    m = re.match(r"^(.*?):(\d+)$", lab)
    if not m:
        return lab
    head, n = m.group(1), int(m.group(2))
    if head in ("cl", "pw:cancel"):
        return "%s:%d" % (head, n - 1)
    return "%s:b%d" % (head, n)


def to_model(lab):
    """harness gate label -> MPBCore label."""
    if lab == "tick":
        return lab
    m = re.match(r"^(cl|pw:cancel):(\d+)$", lab)
    if m:
        return "%s:%d" % (m.group(1), int(m.group(2)) + 1)
    m = re.match(r"^(.*):b(\d+)([pa]\d+)?$", lab)
    if m:
        return "%s:%s%s" % (m.group(1), m.group(2), m.group(3) or "")
    return lab


# ---------------------------------------------------------------- TLC runs

def run_tlc_dir(wd, mod, workers=8, timeout=1800, extra=(), env=None):
    e = dict(os.environ)
    if env:
        e.update(env)
    meta = tempfile.mkdtemp(prefix="meta-", dir=wd)
    cmd = ["tlc", "-workers", str(workers), "-metadir", meta, "-config", mod + ".cfg"] + list(extra) + [mod + ".tla"]
    try:
        p = subprocess.run(cmd, cwd=wd, env=e, capture_output=True, text=True, timeout=timeout)
    except subprocess.TimeoutExpired:
        raise core.Infra("TLC timed out on " + mod)
    finally:
        shutil.rmtree(meta, ignore_errors=True)
    return p.returncode, p.stdout + p.stderr


def counterexample(out):
    """labels of the behaviour TLC printed (the `last` variable of each state)"""
    labs = re.findall(r'/\\ last = "([^"]*)"', out)
    return [l for l in labs if l != "init"]


def check_config(wd, name, workers=8):
    mod = write_model(wd, name, extra_cfg="VIEW view\n")
    rc, out = run_tlc_dir(wd, mod, workers=workers)
    st, tr = core.tlc_stats(out)
    viol = re.search(r"Invariant (\w+) is violated", out)
    if rc != 0 and not viol:
        raise core.Infra("TLC failed on %s:\n%s" % (name, out[-2500:]))
    return {"config": name, "states": st, "transitions": tr, "violated": viol.group(1) if viol else None,
            "schedule": counterexample(out) if viol else []}


def simulate(wd, name, num, depth, seed, det=False):
    """behaviours of the specification as gate schedules (TLC -simulate); det: prefer steps with a single outcome
    (no select left to the Go runtime), which the harness can follow to the end"""
    mod = write_model(wd, name, spec={True: "SimSpecDet", "calm": "SimSpecCalm", "strict": "SimSpecStrict", False: "SimSpec"}[det], invariants="", sim=True, extra_cfg="CONSTRAINT Emit\n")
    rc, out = run_tlc_dir(wd, mod, workers=1, extra=["-simulate", "num=%d" % num, "-depth", str(depth), "-seed", str(seed)], timeout=1200)
    scheds = []
    for m in re.finditer(r'<<\s*"SCHED",\s*"(\w+)",\s*<<(.*?)>>\s*>>', out.replace("\n", " ")):
        labs = re.findall(r'"([^"]*)"', m.group(2))
        scheds.append((m.group(1), labs))
    return scheds, out


# ---------------------------------------------------------------- trace validation

def gate_trace_events(traces):
    """step events of recorded executions -> MPBTrace events (model labels)"""
    evs = []
    for ti, (tid, es) in enumerate(traces.items()):
        first = True
        for e in es:
            if e["ev"] == "step":
                evs.append({"ti": ti + 1, "tr": tid, "first": first, "g": to_model(e["g"]), "parked": [to_model(x) for x in e["parked"]]})
                first = False
    return evs


class SoftTimeout(Exception):
    """a trace validation that was given up (recorded, never a verdict and never an infra failure)"""


def _validate_chunk(wd, name, traces, cfg, timeout=2400, soft=False):
    ids = list(traces)
    evs = gate_trace_events(traces)
    if not evs:
        return [], [], 0, 0, 0
    os.makedirs(wd, exist_ok=True)
    tf = os.path.join(wd, "core-%s.ndjson" % name)
    of = os.path.join(wd, "core-%s.out" % name)
    with open(tf, "w") as f:
        for e in evs:
            f.write(json.dumps(e) + "\n")
    mod = write_model(wd, name, spec="TSpec", invariants="", extra_cfg="POSTCONDITION Report\n", cfg=cfg)
    src = open(os.path.join(wd, mod + ".tla")).read().replace("EXTENDS MPBCore", "EXTENDS MPBTrace")
    open(os.path.join(wd, mod + ".tla"), "w").write(src)
    try:
        rc, out = run_tlc_dir(wd, mod, workers=1, env={"CORE_TRACE": tf, "CORE_OUT": of, "JAVA_TOOL_OPTIONS": "-Xss256m"}, timeout=timeout)
    except core.Infra:
        if soft:
            raise SoftTimeout(name)
        raise
    if rc != 0 or not os.path.exists(of):
        raise core.Infra("MPBTrace did not finish on %s:\n%s" % (name, out[-2500:]))
    res = json.load(open(of))
    st, tr = core.tlc_stats(out)
    with_steps = [i for i in ids if any(e["tr"] == i for e in evs)]
    acc = [i for k, i in enumerate(with_steps) if res["accepted"][k]]
    rej = [i for k, i in enumerate(with_steps) if not res["accepted"][k]]
    return acc, rej, st, tr, len(evs)


def validate_traces(wd, name, traces, cfg=None, chunk=20, timeout=2400, soft=False):
    """Returns (accepted ids, rejected ids, states, transitions, steps matched).  The traces are validated in
    parallel TLC runs of `chunk` traces each (the search itself is sequential: one register per trace)."""
    from concurrent.futures import ThreadPoolExecutor
    ids = list(traces)
    if len(ids) <= chunk:
        return _validate_chunk(wd, name, traces, cfg, timeout, soft)
    parts = [ids[i:i + chunk] for i in range(0, len(ids), chunk)]
    acc, rej, st, tr, n = [], [], 0, 0, 0
    with ThreadPoolExecutor(max_workers=core.NCPU) as ex:
        futs = [ex.submit(_validate_chunk, os.path.join(wd, "vt-%s-%d" % (name, k)), name, {i: traces[i] for i in part}, cfg)
                for k, part in enumerate(parts)]
        for f in futs:
            a, r, s1, t1, n1 = f.result()
            acc += a
            rej += r
            st += s1
            tr += t1
            n += n1
    return acc, rej, st, tr, n
