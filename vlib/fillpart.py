"""C07 / C08: Fill.tla, Row.tla and FillArith.tla are checked by TLC (termination, exact width, proportional
share, monotonicity); the tables TLC computes from them are replayed on the real fillers and on one-frame containers."""
import json
import os
import re
import shutil
import subprocess
import time
from concurrent.futures import ThreadPoolExecutor

from . import core


def tlc_to_file(module, cfg, wd, name, workers=8, timeout=3000):
    rc, out = core.run_tlc(core.SPECS, module, cfg, workers=workers, timeout=timeout)
    path = os.path.join(wd, name)
    open(path, "w").write(out)
    if rc != 0:
        raise core.Infra("%s/%s failed (a specification that violates its own properties is a model defect):\n%s" % (module, cfg, out[-3000:]))
    st, tr = core.tlc_stats(out)
    return path, st, tr


def go_rows(binary, test, inp, wd, tag, jobs, extra_env=None):
    def one(i):
        outp = os.path.join(wd, "%s-%d.out" % (tag, i))
        env = dict(os.environ, VH_IN=inp, VH_OUT=outp, VH_FROM=str(i), VH_STEP=str(jobs))
        env.update(extra_env or {})
        p = subprocess.run([binary, "-test.run", "^%s$" % test, "-test.timeout", "0"], env=env, capture_output=True, text=True, timeout=3000)
        lines = []
        for l in (open(outp) if os.path.exists(outp) else []):
            try:
                lines.append(json.loads(l))
            except ValueError:
                break   # the worker died in the middle of a line
        if not lines or "done" not in lines[-1]:
            out = p.stdout + p.stderr
            m = re.search(r"^(panic: .*|fatal error: .*|WARNING: DATA RACE)$", out, re.M)
            if m and re.search(r"^github\.com/vbauerster/mpb/v8[./(]", out, re.M):
                # the process was taken down while the real code was executing a case (a Go runtime fault such as
                # concurrent map writes cannot be recovered by the driver): that is behaviour of the code under test
                lines.append({"row": -1 - i, "kind": "crash", "msg": "driver process crashed inside library code: " + m.group(1)[:160]})
                lines.append({"done": max(0, len(lines) - 1), "aborted": True})
                return lines
            raise core.Infra("%s worker %d did not finish: %s" % (test, i, out[-1500:]))
        return lines
    bad, done, aborted = [], 0, False
    with ThreadPoolExecutor(max_workers=jobs) as ex:
        for lines in ex.map(one, range(jobs)):
            done += lines[-1]["done"]
            aborted = aborted or lines[-1].get("aborted", False)
            bad.extend(lines[:-1])
    return bad, done, aborted


def run(prop, tier, seed):
    t0 = time.time()
    wd = core.workdir(prop)
    try:
        binary = core.build_harness(wd)
        lines, nviol, states, trans, evals = [], 0, 0, 0, 0
        samples = []
        os.makedirs(os.path.join(core.ROOT, "replays"), exist_ok=True)

        def report(kind, bads, rule, how=None):
            nonlocal nviol
            for b in bads[:8]:
                path = os.path.join(core.ROOT, "replays", "%s-%s-%d.json" % (prop, kind, b.get("row", 0)))
                json.dump(dict(b, property=prop, kind=kind, rule=rule, how=how), open(path, "w"))
                lines.append("VIOLATION property=%s replay=%s rule=%s %s" % (prop, path, rule, str(b.get("msg", b))[:160]))
            nviol += len(bads)

        if prop == "C07":
            # the step machine: termination (liveness) and exact width on the specification
            f, st, tr = tlc_to_file("Fill.tla", "FillQuick.cfg" if tier == "quick" else "FillRows.cfg", wd, "fill.out", workers=8)
            states += st
            trans += tr
            if tier == "thorough":
                _, st, tr = tlc_to_file("Fill.tla", "Fill.cfg", wd, "fillfull.out", workers=core.NCPU)
                states += st
                trans += tr
            bad, done, aborted = go_rows(binary, "TestFillRows", f, wd, "fill", core.NCPU)
            evals += done * 4
            report("fill", bad, "filler-disagrees-with-Fill.tla",
                   {"module": "Fill.tla", "cfg": "FillQuick.cfg" if tier == "quick" else "FillRows.cfg", "test": "TestFillRows"})
            if aborted:
                lines.append("note: a worker stopped early after repeated non-terminating Fill calls")
            samples.append({"fill_rows": done, "variants": 4, "example": open(f).read().split('<<"ROW", ')[1][:300]})
            r, st, tr = tlc_to_file("Row.tla", "Row.cfg", wd, "row.out", workers=4)
            states += st
            trans += tr
            bad, done2, _ = go_rows(binary, "TestRowLayout", r, wd, "row", core.NCPU)
            evals += done2
            report("row", bad, "row-disagrees-with-Row.tla", {"module": "Row.tla", "cfg": "Row.cfg", "test": "TestRowLayout"})
            samples.append({"row_layouts": done2})
            rule = ("every terminated call of Fill.tla (parameters: widths 0..W, component widths {0,1,2}, totals/currents/refills, flags) "
                    "replayed on the real bar filler with 2 palettes x 2 directions and on the spinner filler; every layout of Row.tla "
                    "replayed as one manually refreshed frame; non-trivial = every row (each is a distinct parameter vector)")
            distinct = done + done2
        else:
            a, st, tr = tlc_to_file("FillArith.tla", "FillArithQuick.cfg" if tier == "quick" else "FillArith.cfg", wd, "arith.out", workers=2)
            states += st
            trans += tr
            bad, done, _ = go_rows(binary, "TestShareGrid", a, wd, "grid", 1)
            evals += done
            report("grid", [dict(b, msg="filled %s cells, FillArith.tla says %s" % (b.get("got"), b.get("want"))) for b in bad], "share-disagrees-with-FillArith.tla",
                   {"module": "FillArith.tla", "cfg": "FillArithQuick.cfg" if tier == "quick" else "FillArith.cfg", "test": "TestShareGrid"})
            n = 200000 if tier == "quick" else 4000000
            outs = []

            def rnd(i):
                outp = os.path.join(wd, "share-%d.out" % i)
                subprocess.run([binary, "-test.run", "^TestShare$", "-test.timeout", "0"], capture_output=True, text=True, timeout=3000,
                               env=dict(os.environ, VH_OUT=outp, VH_SEED=str(seed * 1000 + i), VH_N=str(n // core.NCPU)))
                ls = [json.loads(l) for l in open(outp)]
                if not ls or "done" not in ls[-1]:
                    raise core.Infra("TestShare worker did not finish")
                return ls
            with ThreadPoolExecutor(max_workers=core.NCPU) as ex:
                for ls in ex.map(rnd, range(core.NCPU)):
                    evals += ls[-1]["done"]
                    if ls[-1]["bad"]:
                        report("share", [dict(b, row=i) for i, b in enumerate(ls[:-1])], "share-not-proportional-or-not-monotone",
                               {"test": "TestShare", "seed": seed * 1000, "n": n // core.NCPU, "workers": core.NCPU})
                        nviol += max(0, ls[-1]["bad"] - len(ls[:-1]))
            # the refill / filled-part clauses live in Fill.tla (Proportional, RefillWithin, ZeroAndFull) and its replay
            f, st, tr = tlc_to_file("Fill.tla", "FillQuick.cfg", wd, "fill.out", workers=8)
            states += st
            trans += tr
            bad, done3, _ = go_rows(binary, "TestFillRows", f, wd, "fill", core.NCPU)
            evals += done3
            report("fill", bad, "filler-disagrees-with-Fill.tla", {"module": "Fill.tla", "cfg": "FillQuick.cfg", "test": "TestFillRows"})
            samples.append({"grid_points": done, "random_int64_triples": n, "fill_rows": done3})
            rule = ("FillArith.tla grid (totals 1..T, currents 0..T+1, widths 0..W) replayed at scales 1, 2^20, 2^40 and MaxInt64/(T+1); seeded "
                    "random and boundary int64 (total, current1<=current2, width) judged by exact integer arithmetic; Fill.tla rows for the refill clauses")
            distinct = done + done3
        cov = {"states": states, "transitions": trans, "traces_validated_against_impl": evals, "samples": samples,
               "evaluations": evals, "distinct_nontrivial": distinct, "rule": rule, "exhaustive": True,
               "checker_cmd": "tlc Fill.tla / Row.tla / FillArith.tla ; harness.test TestFillRows TestRowLayout TestShareGrid TestShare"}
        lines.append("%s %s fill: %d evaluations, %d violations, %.1fs" % (prop, tier, evals, nviol, time.time() - t0))
        return {"cov": cov, "lines": lines, "nviol": nviol,
                "assume": ["go-runewidth gives the display width of the palette strings (checked at start)",
                           "the specification has widths, not code points: UTF-8 validity and width are checked on the palettes only",
                           "TLC integers are 32-bit: the int64 range is reached through the scale map and exact big-integer arithmetic in the driver"]}
    finally:
        shutil.rmtree(wd, ignore_errors=True)


def table(prop, tier, seed, module, cfg_q, cfg_t, gotest, marker, rule_text, violation_rule, assume, variants=1):
    """Generic: TLC checks the specification's invariants and prints one line per terminal case;
    the Go driver replays every case on the real code."""
    t0 = time.time()
    wd = core.workdir(prop)
    try:
        binary = core.build_harness(wd)
        f, st, tr = tlc_to_file(module, cfg_q if tier == "quick" else cfg_t, wd, "table.out", workers=8)
        bad, done, _ = go_rows(binary, gotest, f, wd, "tab", core.NCPU)
        lines, nviol = [], len(bad)
        os.makedirs(os.path.join(core.ROOT, "replays"), exist_ok=True)
        for b in bad[:8]:
            path = os.path.join(core.ROOT, "replays", "%s-case-%d.json" % (prop, b.get("row", 0)))
            json.dump(dict(b, property=prop, kind="case", rule=violation_rule,
                           how={"module": module, "cfg": cfg_q if tier == "quick" else cfg_t, "test": gotest}), open(path, "w"))
            lines.append("VIOLATION property=%s replay=%s rule=%s %s" % (prop, path, violation_rule, str(b.get("msg"))[:180]))
        ex = open(f).read().split('<<"%s", ' % marker)
        cov = {"states": st, "transitions": tr, "traces_validated_against_impl": done * variants,
               "samples": [{"case": ex[1][:400] if len(ex) > 1 else ""}], "evaluations": done * variants, "distinct_nontrivial": done,
               "rule": rule_text, "exhaustive": True, "checker_cmd": "tlc %s (%s) ; harness.test %s" % (module, cfg_q if tier == "quick" else cfg_t, gotest)}
        lines.append("%s %s table: %d cases, %d violations, %.1fs" % (prop, tier, done, nviol, time.time() - t0))
        return {"cov": cov, "lines": lines, "nviol": nviol, "assume": assume}
    finally:
        shutil.rmtree(wd, ignore_errors=True)


def replay_row(d):
    """Re-checks one recorded table row: TLC recomputes the table, the driver executes that row alone."""
    how = d.get("how") or {}
    wd = core.workdir("replay")
    try:
        binary = core.build_harness(wd)
        if how.get("test") == "TestShare":
            bad = []
            for i in range(how.get("workers", 1)):
                outp = os.path.join(wd, "share-%d.out" % i)
                subprocess.run([binary, "-test.run", "^TestShare$", "-test.timeout", "0"], capture_output=True, text=True, timeout=3000,
                               env=dict(os.environ, VH_OUT=outp, VH_SEED=str(how["seed"] + i), VH_N=str(how["n"])))
                ls = [json.loads(l) for l in open(outp)]
                bad += ls[:-1]
        else:
            f, _, _ = tlc_to_file(how["module"], how["cfg"], wd, "table.out", workers=8)
            row = d.get("row", 0)
            if row < 0:   # a crash of the driver process: run the worker's whole share again
                bad, _, _ = go_rows(binary, how["test"], f, wd, "rp", core.NCPU)
            else:
                bad, _, _ = go_rows(binary, how["test"], f, wd, "rp", 1, extra_env={"VH_FROM": str(row), "VH_STEP": "1000000000"})
        for b in bad[:10]:
            print("BROKEN", json.dumps(b)[:400])
        print("replayed %s row %s: %d disagreements (recorded: %s)" % (how.get("test"), d.get("row"), len(bad), d.get("rule")))
        return 1 if bad else 0
    finally:
        shutil.rmtree(wd, ignore_errors=True)
