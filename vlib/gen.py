"""Random scenario generation (programs all of whose bars terminate).

A scenario is a container configuration, one program per client goroutine and a
scheduling policy; see harness/scenario.go.  Everything derives from the seed.
"""
import random


def decor_spec(rng, sync, wrap_ok=True):
    d = {"sync": sync, "w": rng.choice([0, 0, 0, 6, 9]), "space": rng.random() < 0.3,
         "right": rng.random() < 0.3, "needs": [rng.choice([-1, 0, 1, 2, 3, 4]) for _ in range(rng.randint(1, 3))],   # -1: nothing to show in that frame
         "listen": rng.random() < 0.25, "ewma": False, "wrap": []}
    if wrap_ok and rng.random() < 0.35:
        d["wrap"] = rng.sample(["oncomplete", "onabort", "meta", "custom", "either", "oncompletemeta", "onabortmeta", "eithermeta", "oncomplete0", "onabort0"], rng.randint(1, 3))
    # a decorator may implement several of the optional interfaces at once
    d["ewma"] = rng.random() < 0.15
    d["glyph"] = rng.choice([0, 0, 0, 1, 2])   # double-width runes and combining marks: a column is a number of display cells
    return d


def gen_base(rng, sid, family="base", n=None, q=None, refresh="auto", pop=None, allow_queue=False,
             allow_stop=False, clients=None, fault=False, late_queue=False, ext=True, tail=False):
    n = n if n is not None else rng.randint(1, 4)
    if q is None:
        q = rng.choice([-1, n, n + 1, 16])
    pop = rng.random() < 0.25 if pop is None else pop
    nclients = clients if clients is not None else rng.choice([1, 1, 2, 3])
    cfg = {"q": q, "refresh": refresh, "pop": pop, "notifier": rng.random() < 0.7, "width": rng.choice([120, 160, 200]),
           "delay": False, "outfault": 0, "ctx": False, "autotoo": False, "narrow": False, "uwg": nclients > 1 and rng.random() < 0.25}
    progs = [[] for _ in range(nclients)]
    ncols = [rng.choice([0, 1, 1, 2]), rng.choice([0, 0, 1])]
    bars = []
    finish = {}
    used_trigger = set()
    seq_bars = set()
    for i in range(1, n + 1):
        name = "b%d" % i
        total = rng.choice([0, -1, 1, 2, 2, 3, 3])
        op = {"op": "add", "b": name, "total": total}
        if rng.random() < 0.2:
            op["rm"] = True
        if pop and rng.random() < 0.25:
            op["nopop"] = True
        if rng.random() < 0.3:
            op["prio"] = rng.randint(-2, 4)
            if rng.random() < 0.15:
                op["prio"] = rng.choice([1 << 30, -(1 << 30)])   # BarPriority(math.MaxInt) / (math.MinInt): pinned to the bottom / top
        if rng.random() < 0.15:
            op["id"] = rng.randint(0, 2)   # explicit ids, likely to collide with each other and with default ids
        if ext and rng.random() < 0.2:
            op["ext"] = rng.randint(1, 2)
            op["extrev"] = rng.random() < 0.3
            op["extfrag"] = rng.random() < 0.3
        if rng.random() < 0.15:
            op["trim"] = True
        for si, key in enumerate(["pre", "app"]):
            specs = []
            nsync = rng.randint(0, ncols[si])
            kinds = [True] * nsync + [False] * rng.randint(0, 1)
            rng.shuffle(kinds)
            for s in kinds:
                specs.append(decor_spec(rng, s))
            if specs:
                op[key] = specs
        if allow_queue and bars and rng.random() < 0.5:
            # at most one successor per predecessor unless late_queue asks for the known defect
            cands = [b for b in bars if late_queue or not any(o.get("after") == b for o in progs[0] if o["op"] == "add")]
            if cands:
                op["after"] = rng.choice(cands)
        bars.append(name)
        progs[0].append(op)
        # ops on the bar, spread over the clients
        steps = []
        for _ in range(rng.randint(0, 3)):
            r = rng.random()
            if r < 0.5:
                steps.append({"op": "incr", "b": name, "n": 1})
            elif r < 0.6:
                steps.append({"op": "setcur", "b": name, "n": rng.randint(0, 3)})
            elif r < 0.7:
                steps.append({"op": "get", "b": name})
            elif r < 0.8:
                if rng.random() < 0.25:
                    # a lazy change overtaken by an immediate one from the same client: the later call wins
                    steps.append([{"op": "prio", "b": name, "n": rng.randint(-3, 5), "flag": True},
                                  {"op": "prio", "b": name, "n": rng.randint(-3, 5), "flag": False}])
                else:
                    steps.append({"op": "prio", "b": name, "n": rng.randint(-3, 5), "flag": rng.random() < 0.4})
            elif r < 0.85:
                steps.append({"op": "refill", "b": name, "n": rng.randint(0, 2)})
            elif r < 0.9 and total <= 0:
                steps.append({"op": "settotal", "b": name, "n": rng.randint(1, 4), "flag": False})
            elif r < 0.93 and total <= 0:
                steps.append({"op": "trigger", "b": name})
                used_trigger.add(name)
        # the finisher makes the bar terminal whatever the other calls did
        r = rng.random()
        if r < 0.2:
            fin = {"op": "abort", "b": name, "flag": rng.random() < 0.4}
        elif total > 0:
            fin = {"op": "incr", "b": name, "n": total}
        elif name in used_trigger or r < 0.4:
            fin = {"op": "abort", "b": name, "flag": False}
        else:
            fin = {"op": "settotal", "b": name, "n": -1, "flag": True}
        c = rng.randrange(nclients)
        # SetCurrent may move the counter backwards, which un-completes a bar (outside every
        # property's domain): a bar that uses it is driven by one client, with non-decreasing values
        seq_bar = any(not isinstance(s, list) and s["op"] == "setcur" for s in steps)
        if seq_bar:
            seq_bars.add(name)
            lo = 0
            for s in steps:
                if isinstance(s, list):
                    continue
                if s["op"] == "setcur":
                    s["n"] = lo = max(lo, s["n"])
                elif s["op"] == "incr":
                    lo += s["n"]
        for s in steps:
            if isinstance(s, list):
                progs[rng.randrange(nclients)].extend(s)
                continue
            counter = s["op"] in ("setcur", "incr", "settotal", "trigger")
            progs[c if (seq_bar and counter) else rng.randrange(nclients)].append(s)
        finish[name] = (c, fin)
    # interleave creation with work on client 0: shuffle non-add ops of client 0 after their bar's add
    def place(prog):
        adds = [o for o in prog if o["op"] == "add"]
        rest = [o for o in prog if o["op"] != "add"]
        out = []
        pend = list(rest)
        for a in adds:
            out.append(a)
            have = {o["b"] for o in out if o["op"] == "add"}
            # a prefix of the pending calls (their relative order is part of the program)
            while pend and pend[0].get("b") in have and rng.random() < 0.6:
                out.append(pend.pop(0))
        out.extend(pend)
        return out
    progs[0] = place(progs[0])
    if allow_queue and not late_queue:
        # safe queueing: a predecessor can only finish after its successor exists.  Its total is
        # out of reach of the small increments and its finisher runs in client 0 after the
        # successor's Add has returned.
        preds = {o["after"] for o in progs[0] if o["op"] == "add" and o.get("after")}
        for p in preds:
            for o in progs[0]:
                if o["op"] == "add" and o["b"] == p:
                    o["total"] = 50
            for c in range(nclients):
                progs[c] = [o for o in progs[c] if not (o.get("b") == p and o["op"] in ("settotal", "trigger", "setcur"))]
            c, fin = finish[p]
            if fin["op"] != "abort":
                fin = {"op": "incr", "b": p, "n": 50}
            finish[p] = (0, fin)
    order = list(finish)
    if allow_queue and not late_queue:
        # some successors finish while they are still parked: their finisher runs before the predecessor's
        succ = {o["b"]: o["after"] for o in progs[0] if o["op"] == "add" and o.get("after")}
        early = {b for b in succ if rng.random() < 0.4 and b not in seq_bars}   # (a bar that uses SetCurrent keeps its one driver)
        for b in early:
            finish[b] = (0, finish[b][1])
        def depth(b):
            return 0 if b not in succ else 1 + depth(succ[b])
        order.sort(key=lambda b: (0 if b in early else 1, -depth(b)))
    for name in order:
        c, fin = finish[name]
        progs[c].append(fin)
        if not allow_queue and rng.random() < 0.25:
            # calls on a bar that has left the container while the container lives on
            progs[c].append({"op": "barwait", "b": name})
            progs[c].append({"op": "prio", "b": name, "n": rng.randint(-3, 5), "flag": rng.random() < 0.3})
            if rng.random() < 0.5:
                progs[c].append({"op": rng.choice(["incr", "refill", "abort", "get"]), "b": name, "n": 1, "flag": False})
    # text
    nw = 0
    for c in range(nclients):
        for _ in range(rng.choice([0, 0, 1, 2])):
            pos = rng.randint(0, len(progs[c]))
            w = {"op": "write", "line": "T|%d|%d" % (c, nw)}
            r_ = rng.random()
            if r_ < 0.3:
                w["chunks"] = True   # the text and its line feed arrive in two Write calls
            elif r_ < 0.45:
                w["more"] = ["T|%dm%d|%d" % (c, j, nw) for j in range(1, rng.randint(2, 3))]   # several lines in one Write call
            elif r_ < 0.5:
                w["line"] = "T|%dbig%s|%d" % (c, "a" * 6000, nw)   # a line much longer than any buffer
            progs[c].insert(pos, w)
            if "big" in w["line"]:
                # a short line from the same client just before it: the long one must not overtake it
                progs[c].insert(pos, {"op": "write", "line": "T|%dpre|%d" % (c, nw)})
            elif rng.random() < 0.2:
                # the same line once more, straight away (a log line that repeats itself: with idle bars the two frames are identical)
                progs[c].insert(pos + 1, {"op": "write", "line": w["line"]})
            nw += 1
    if fault:
        victim = rng.choice([o for o in progs[0] if o["op"] == "add"])
        kind = rng.choice(["fill", "fill", "ext", "out"])
        if kind == "out":
            cfg["outfault"] = rng.randint(1, 3)
        else:
            victim["fault"] = {"kind": kind, "at": rng.randint(1, 4)}
            if rng.random() < 0.4:
                # the failing bar takes no part in the width exchange; the others share a column and may be in the middle of
                # their exchange when the error stops the cycle
                for key in ("pre", "app"):
                    for d in victim.get(key, []):
                        d["sync"] = False
                for o in progs[0]:
                    if o["op"] == "add" and o is not victim:
                        o.setdefault("pre", []).insert(0, decor_spec(rng, True))
            if kind == "ext":
                victim["extrev"] = rng.random() < 0.5
            if kind == "fill" and rng.random() < 0.25:
                victim["fault"] = {"kind": "fill", "at": 0, "when": "C"}   # the first frame drawn after the bar has completed
            if kind == "fill" and rng.random() < 0.3:
                victim["fault"]["at"] = -rng.randint(1, 3)   # the k-th Fill after the done channel is closed (the final frames)
    if allow_stop and rng.random() < 0.8:
        c = rng.randrange(nclients)
        kind = rng.choice(["shutdown", "cancel"])
        if kind == "cancel":
            cfg["ctx"] = True
        progs[c].insert(rng.randint(0, len(progs[c])), {"op": kind})
    if refresh == "manual":
        # refreshes sprinkled everywhere; enough of them at the end for every bar to be flushed twice
        for c in range(nclients):
            for _ in range(rng.randint(0, 3)):
                progs[c].insert(rng.randint(0, len(progs[c])), {"op": "refresh"})
        if rng.random() < 0.2:
            # the producer of the refresh requests closes its channel at some point (a closed channel refreshes without end)
            c = rng.randrange(nclients)
            progs[c].insert(rng.randint(0, len(progs[c])), {"op": "closerefresh"})
    if tail:
        # quiet tail: every bar has exited before the last lines are written and Wait is called,
        # so only the final render can carry them
        for b in bars:
            progs[0].append({"op": "barwait", "b": b})
        same = rng.random() < 0.5   # the same line again and again: with every bar at rest consecutive frames are identical
        for _ in range(rng.randint(1, 3)):
            progs[0].append({"op": "write", "line": "T|tail|%d" % nw})
            if not same:
                nw += 1
        nw += 1
    # the main client waits, then reads the final state of every bar and makes late calls
    progs[0].append({"op": "wait"})
    for b in bars:
        progs[0].append({"op": "get", "b": b})
    if rng.random() < 0.5:
        progs[0].append({"op": "add", "b": "b%d" % (n + 1), "total": 1})
        progs[0].append({"op": "write", "line": "T|late|%d" % nw})
        if rng.random() < 0.5:
            progs[0].append({"op": "write", "line": "", "empty": True})   # Write(nil) after Wait is a late Write like any other
        b = rng.choice(bars)
        progs[0].append({"op": "incr", "b": b, "n": 1})
        progs[0].append({"op": "abort", "b": b, "flag": False})
        progs[0].append({"op": "get", "b": b})
    for c in range(1, nclients):
        if rng.random() < 0.4 and bars:
            progs[c].append({"op": "barwait", "b": rng.choice(bars)})
        if rng.random() < 0.3:
            progs[c].append({"op": "wait"})
    sc = {"id": sid, "family": family, "cfg": cfg, "clients": progs,
          "sched": {"mode": "random", "seed": rng.randrange(1 << 30), "tickw": rng.choice([1, 1, 2, 4]), "steps": [],
                    "budget": 0, "bias": rng.choice([[], [], ["dp:send"], ["fmt:send"], ["hm:req"], ["cl:"], ["rg:start"],
                                                      ["bar:exit"], ["dist:"], ["er:"]])},
          "stats": False}
    if fault and rng.random() < 0.3:
        # the width distributors are the last to move: a render error then finds them between collecting and handing back
        sc["sched"]["bias"] = ["dist:"]
    if rng.random() < 0.08:
        # the clients (and Wait's own cancellation) run ahead of the container and time passes only when nothing else can move
        sc["sched"]["bias"] = ["ct:", "hm:", "rg:", "er:", "bar:", "dist:", "fmt:", "dp:", "ls:tick"]
        sc["sched"]["tickw"] = -1
    return sc


def gen_lin(rng, sid):
    """k client goroutines hammer one bar (and read it) while it is rendered, completes and exits."""
    k = rng.randint(2, 4)
    total = rng.choice([0, 0, 3, 5, 8])
    cfg = {"q": -1, "refresh": rng.choice(["auto", "auto", "none", "manual"]), "pop": False, "notifier": False, "width": 120,
           "delay": False, "outfault": 0, "ctx": False}
    progs = [[] for _ in range(k)]
    # 0-2 decorators; moving-average ones (every sample must reach each of them) and one carrying the library's
    # average ETA / speed decorators, whose start time Bar.DecoratorAverageAdjust rewrites while frames are drawn
    pre = [decor_spec(rng, False, wrap_ok=False) for _ in range(rng.choice([0, 1, 1, 2, 2]))]
    for d in pre:
        d["ewma"] = rng.random() < 0.6
    app = []
    avg = rng.random() < 0.5
    if avg:
        d = decor_spec(rng, False, wrap_ok=False)
        d["avg"] = True
        app.append(d)
    progs[0].append({"op": "add", "b": "b1", "total": total, "pre": pre, "app": app})
    for c in range(k):
        for _ in range(rng.randint(2, 5)):
            r = rng.random()
            if r < 0.4:
                progs[c].append({"op": rng.choice(["incr", "ewma", "ewma"] if any(d["ewma"] for d in pre) else ["incr", "incr", "ewma"]),
                                 "b": "b1", "n": rng.randint(1, 2)})
                if cfg["refresh"] == "manual" and rng.random() < 0.5:
                    progs[c].append({"op": "refresh"})
            elif r < 0.5:
                progs[c].append({"op": "getcur", "b": "b1"})
            elif r < 0.6:
                progs[c].append({"op": "getcomp", "b": "b1"})
            elif r < 0.7:
                progs[c].append({"op": "getab", "b": "b1"})
            elif r < 0.78 and total <= 0:
                # (SetTotal(-1, true): "the total is whatever has been counted so far, and the bar is complete")
                progs[c].append({"op": "settotal", "b": "b1", "n": rng.choice([-1, -1, 0, 2, 4]), "flag": rng.random() < 0.5})
            elif r < 0.84 and total <= 0:
                progs[c].append({"op": "trigger", "b": "b1"})
            elif r < 0.88:
                progs[c].append({"op": "refill", "b": "b1", "n": rng.randint(0, 3)})
            elif r < 0.93 and avg:
                progs[c].append({"op": "avgadjust", "b": "b1", "n": rng.randint(0, 5)})
            elif r < 0.95:
                progs[c].append({"op": "abort", "b": "b1", "flag": rng.random() < 0.3})
            else:
                progs[c].append({"op": "getcur", "b": "b1"})
    if avg:
        # an adjustment of the averages followed by a pause: frames are drawn while the client is elsewhere
        for c in range(k):
            if rng.random() < 0.6:
                pos = rng.randint(1 if c == 0 else 0, len(progs[c]))
                progs[c][pos:pos] = [{"op": "avgadjust", "b": "b1", "n": rng.randint(0, 5)}, {"op": "pause"}]
    if cfg["refresh"] == "manual":
        for c in range(k):
            for _ in range(2):
                progs[c].append({"op": "refresh"})
                progs[c].append({"op": "pause"})
    progs[0].append({"op": "abort", "b": "b1", "flag": False})
    progs[0].append({"op": "wait"})
    for o in ("getcur", "getcomp", "getab"):
        progs[0].append({"op": o, "b": "b1"})
    # readers that keep reading while the bar shuts down and after it has exited
    c = rng.randrange(1, k)
    for _ in range(rng.randint(2, 6)):
        progs[c].append({"op": rng.choice(["getcomp", "getab", "getcur"]), "b": "b1"})
    return {"id": sid, "family": "lin", "cfg": cfg, "clients": progs,
            "sched": {"mode": "free", "seed": rng.randrange(1 << 30), "tickw": 1, "steps": [], "budget": 0, "bias": []}, "stats": False}


def family(name, rng, sid):
    if name == "lin":
        return gen_lin(rng, sid)
    if name.endswith("@free"):
        sc = family(name[:-5], rng, sid)
        sc["family"] = name
        sc["sched"]["mode"] = "free"
        return sc
    if name == "base":
        return gen_base(rng, sid, "base")
    if name == "nq":
        n = rng.randint(2, 4)
        return gen_base(rng, sid, "nq", n=n, q=rng.randint(0, n - 1))
    if name == "queue":
        return gen_base(rng, sid, "queue", n=rng.randint(2, 4), allow_queue=True)
    if name == "latequeue":
        return gen_base(rng, sid, "latequeue", n=rng.randint(2, 4), allow_queue=True, late_queue=True)
    if name == "stop":
        return gen_base(rng, sid, "stop", allow_stop=True, allow_queue=rng.random() < 0.3)
    if name == "manual":
        sc = gen_base(rng, sid, "manual", refresh="manual", allow_stop=rng.random() < 0.3)
        sc["cfg"]["autotoo"] = rng.random() < 0.5
        return sc
    if name == "manualqueue":
        # a bar parked behind its predecessor may finish there: without auto-refresh a finished bar's goroutine exits at once
        return gen_base(rng, sid, "manualqueue", n=rng.randint(2, 4), refresh="manual", allow_queue=True)
    if name == "tall":
        # frames exactly as high as the row limit of a non-terminal output (the container width), or one row less
        sc = gen_base(rng, sid, "tall", n=rng.randint(1, 3), ext=False)
        w = next(i for i, o in enumerate(sc["clients"][0]) if o["op"] == "wait")
        adds = [o for o in sc["clients"][0][:w] if o["op"] == "add"]
        sc["cfg"]["width"] = 120
        rows = 120 - rng.choice([0, 0, 1])
        o = rng.choice(adds)
        o["ext"] = rows - len(adds)
        o["extrev"] = rng.random() < 0.3
        return sc
    if name == "narrow":
        # a container too narrow for its decorators: they are cut with an ellipsis or not drawn at all, but every one of
        # them still takes part in its column's width exchange; rows are not parsed (cfg.narrow)
        sc = gen_base(rng, sid, "narrow", n=rng.randint(2, 4), ext=False, allow_stop=rng.random() < 0.2, fault=rng.random() < 0.15)
        sc["cfg"]["width"] = rng.choice([1, 2, 4, 8, 12, 16, 24, 32])
        sc["cfg"]["narrow"] = True
        # every bar gets a synchronised decorator somewhere, several get two
        for o in sc["clients"][0]:
            if o["op"] == "add":
                for key in ("pre", "app"):
                    if rng.random() < 0.6:
                        o.setdefault(key, []).append(decor_spec(rng, True))
        return sc
    if name == "many":
        # more bars than the default queue length of the heap manager (128), and a queue made long enough for them
        n = rng.randint(130, 136)
        sc = gen_base(rng, sid, "many", n=n, q=4 * n, clients=rng.choice([1, 2]), ext=False, pop=False)
        for o in sc["clients"][0]:
            if o["op"] == "add":
                o.pop("pre", None)
                o.pop("app", None)
        sc["cfg"]["width"] = 200
        sc["sched"]["budget"] = 60000
        return sc
    if name == "uwg":
        # a user wait group (WithWaitGroup): the first client only creates the bars and waits, the workers finish them and
        # call Done at once - Wait must still see every bar through its last frames (removal, popping)
        sc = gen_base(rng, sid, "uwg", n=rng.randint(2, 4), clients=rng.choice([2, 3]))
        sc["cfg"]["uwg"] = True
        prog0 = sc["clients"][0]
        w = next(i for i, o in enumerate(prog0) if o["op"] == "wait")
        for o in prog0[:w]:
            if o["op"] == "add" and not sc["cfg"]["pop"] and rng.random() < 0.6:
                o["rm"] = True
        moved = [o for o in prog0[:w] if o["op"] in ("incr", "abort", "settotal", "setcur", "trigger", "barwait")]
        prog0[:w] = [o for o in prog0[:w] if not any(o is m for m in moved)]
        for c in range(1, len(sc["clients"])):   # a worker does not wait for a bar it may have to finish itself later on
            sc["clients"][c][:] = [o for o in sc["clients"][c] if o["op"] != "barwait"]
        if rng.random() < 0.6:
            # the clients (and Wait's own cancellation) run ahead of the container: the last frames are still to come
            sc["sched"]["bias"] = ["ct:", "hm:", "rg:", "er:", "bar:", "dist:", "fmt:", "dp:", "ls:tick"]
            sc["sched"]["tickw"] = -1   # and time passes only when nothing else can move
        home = {}                                   # all the work on one bar that came from the first client goes to one worker
        for o in moved:
            if o["op"] == "barwait":
                continue
            c = home.setdefault(o["b"], rng.randrange(1, len(sc["clients"])))
            wk = sc["clients"][c]
            k = next((i for i, x in enumerate(wk) if x["op"] == "wait"), len(wk))
            wk.insert(k, o)
        return sc
    if name == "overtall":
        # more rows than the row limit of a non-terminal output: the topmost bars are clipped in every frame, yet they
        # finish, hand over to their successors and leave like any other bar; rows are not judged (cfg.narrow)
        sc = gen_base(rng, sid, "overtall", n=rng.randint(2, 4), allow_queue=True, ext=False)
        w = next(i for i, o in enumerate(sc["clients"][0]) if o["op"] == "wait")
        adds = [o for o in sc["clients"][0][:w] if o["op"] == "add"]
        free = [o for o in adds if not o.get("after")]
        big = free[-1]
        big["ext"] = rng.randint(120, 124)
        big.pop("rm", None)
        big["total"] = 50   # it stays to the end: its finisher comes last
        sc["cfg"]["width"] = 120
        sc["cfg"]["narrow"] = True
        prog = sc["clients"][0]
        for c in range(len(sc["clients"])):
            sc["clients"][c][:] = [o for o in sc["clients"][c] if not (o.get("b") == big["b"] and o["op"] in ("incr", "setcur", "settotal", "trigger", "abort", "barwait"))]
        w = next(i for i, o in enumerate(prog) if o["op"] == "wait")
        if rng.random() < 0.4 and not any(o.get("after") == big["b"] for o in adds):
            # the tall bar finishes first and is removed: the bars that were clipped in every frame so far come into view
            # and are drawn like any other bar from then on (what was rendered for them while they were hidden is gone)
            big["rm"] = True
            big.pop("nopop", None)
            w = 1 + max(i for i, o in enumerate(prog) if o["op"] == "add" and i < w)
        prog.insert(w, {"op": "incr", "b": big["b"], "n": 50})
        return sc
    if name == "none":
        return gen_base(rng, sid, "none", refresh="none", allow_stop=rng.random() < 0.3)
    if name == "fault":
        return gen_base(rng, sid, "fault", fault=True)
    if name in ("prio", "heap"):
        # many priority changes: immediate, lazy, a lazy one overtaken by an immediate one, equal values
        if name == "heap":
            # enough bars for a heap three levels deep (6-9): the order in which a cycle pops the bars and the container hands
            # them back is no longer the order of a sorted list, so a heap operation that is only right for the bars next to
            # the root shows; plain rows, spread-out priorities, pop mode in two programs of five
            sc = gen_base(rng, sid, "heap", n=rng.randint(6, 9), q=64, pop=rng.random() < 0.4, ext=False, clients=rng.choice([1, 2]))
            for o in sc["clients"][0]:
                if o["op"] == "add":
                    o.pop("pre", None)
                    o.pop("app", None)
                    o.pop("rm", None)
                    if rng.random() < 0.5:
                        o["prio"] = rng.randint(-9, 9)
            sc["sched"]["budget"] = 6000
        else:
            sc = gen_base(rng, sid, "prio", n=rng.randint(2, 4), pop=rng.random() < 0.15)
        w = next(i for i, o in enumerate(sc["clients"][0]) if o["op"] == "wait")
        bars = [o["b"] for o in sc["clients"][0][:w] if o["op"] == "add"]
        for _ in range(rng.randint(2, 5) if name == "prio" else rng.randint(3, 8)):
            b = rng.choice(bars)
            c = rng.randrange(len(sc["clients"]))
            prog = sc["clients"][c]
            hi = w if c == 0 else len(prog)
            lo = 0
            if c == 0:   # a client cannot wait for its own later Add
                lo = 1 + next(i for i, o in enumerate(prog) if o["op"] == "add" and o["b"] == b)
            pos = rng.randint(lo, hi)
            if rng.random() < 0.4:
                ops = [{"op": "prio", "b": b, "n": rng.randint(-3, 5), "flag": True}, {"op": "prio", "b": b, "n": rng.randint(-3, 5), "flag": False}]
            elif name == "heap":
                ops = [{"op": "prio", "b": b, "n": rng.randint(-9, 9), "flag": rng.random() < 0.6}]
            else:
                ops = [{"op": "prio", "b": b, "n": rng.randint(-3, 5), "flag": rng.random() < 0.4}]
            prog[pos:pos] = ops
            if c == 0:
                w += len(ops)
        return sc
    if name == "latefault":
        # a filler fails while the final frames are drawn (after the done channel is closed); the bars stay in the container
        sc = gen_base(rng, sid, "latefault", n=rng.randint(2, 4), pop=False)
        w = next(i for i, o in enumerate(sc["clients"][0]) if o["op"] == "wait")
        adds = [o for o in sc["clients"][0][:w] if o["op"] == "add"]
        for o in adds:
            o.pop("rm", None)
        victim = rng.choice(adds)
        if len(adds) > 1 and rng.random() < 0.5:
            # the failing bar is the one a frame is collected from first and stands outside the width exchange; the others, all
            # finished by then (their rows are drawn by the per-frame goroutines), share a column whose distributor moves last
            victim = adds[-1]
            for o in adds:
                o.pop("prio", None)
                for key in ("pre", "app"):
                    for d in o.get(key, []):
                        if o is victim:
                            d["sync"] = False
                if o is not victim:
                    o.setdefault("pre", []).insert(0, decor_spec(rng, True))
            sc["sched"]["bias"] = ["dist:"]
        victim["fault"] = {"kind": "fill", "at": -rng.randint(1, 3)}   # at the k-th frame after the done channel is closed
        return sc
    if name == "stoppop":
        # pop-completed container shut down while bars are at staggered stages: no-pop, remove-on-complete and
        # queued bars make the bar set change in several consecutive shutdown frames
        sc = gen_base(rng, sid, "stoppop", pop=True, n=rng.randint(2, 4), allow_stop=True, allow_queue=rng.random() < 0.4)
        for o in sc["clients"][0]:
            if o["op"] == "add":
                if rng.random() < 0.5:
                    o["nopop"] = True
                if rng.random() < 0.5:
                    o["rm"] = True
        return sc
    if name == "delay":
        sc = gen_base(rng, sid, "delay")
        sc["cfg"]["delay"] = True
        pos = rng.randint(0, len(sc["clients"][0]) - 1)
        # the delay ends somewhere before the main client's Wait (or never)
        w = next(i for i, o in enumerate(sc["clients"][0]) if o["op"] == "wait")
        if rng.random() < 0.85:
            sc["clients"][0].insert(rng.randint(0, w), {"op": "delayend"})
        return sc
    if name == "rmtail":
        # every bar leaves the container when it finishes (remove-on-complete, or aborted with drop); lines are written when
        # the bars' goroutines have gone but their last rows may still be on the screen, and after the container is empty
        sc = gen_base(rng, sid, "rmtail", tail=True, clients=1, pop=False, ext=rng.random() < 0.3)
        prog = sc["clients"][0]
        for o in prog:
            if o["op"] == "add":
                o["rm"] = True
            elif o["op"] == "abort":
                o["flag"] = True
        w = next(i for i, o in enumerate(prog) if o["op"] == "wait")
        for _ in range(rng.randint(0, 2)):
            prog.insert(w, {"op": "pause"})   # a refresh period or two before Wait: the container idles with nothing to draw
        sc["sched"]["tickw"] = rng.choice([1, 2])
        return sc
    if name == "tail":
        sc = gen_base(rng, sid, "tail", tail=True, clients=1, pop=rng.random() < 0.2)
        sc["sched"]["tickw"] = 1
        sc["sched"]["bias"] = ["ls:tick"]
        if rng.random() < 0.5:
            # oldest gate first, time passes only when nothing else can move: the last lines are then written
            # after the last periodic frame and only the final render can carry them
            sc["sched"]["mode"] = "fair"
        return sc
    if name == "pop":
        return gen_base(rng, sid, "pop", pop=True, n=rng.randint(2, 4))
    if name == "latewindow":
        # a bar queued behind a predecessor that has already finished, aimed at a particular frame: a manually refreshed
        # container draws a frame per request, and the Add is issued after the predecessor's k-th frame in its terminal state
        # (k = 1: the ordinary hand-over; k = 2: the window of the recorded finding F2b; k = 3: the predecessor has left or has
        # been popped).  Other bars finish afterwards, in pop mode more often than not.
        pop = rng.random() < 0.6
        k = rng.choice([1, 2, 2, 2, 3])
        cfg = {"q": rng.choice([-1, 16]), "refresh": "manual", "pop": pop, "notifier": rng.random() < 0.5, "width": 160, "delay": False,
               "outfault": 0, "ctx": False, "autotoo": False, "narrow": False, "uwg": False}
        prog = [{"op": "add", "b": "b1", "total": 1}, {"op": "add", "b": "b2", "total": 2}]
        nb = 2
        if rng.random() < 0.5:
            nb = 3
            prog.append({"op": "add", "b": "b3", "total": 2})
        if rng.random() < 0.3:
            prog[0]["prio"] = rng.randint(0, 3)
        if rng.random() < 0.3:
            prog[0]["nopop"] = True
        if rng.random() < 0.5:
            prog.append({"op": "incr", "b": "b1", "n": 1})
        else:
            prog.append({"op": "abort", "b": "b1", "flag": False})
        for j in range(1, k + 1):
            prog.append({"op": "refresh"})
            prog.append({"op": "nop", "when": {"b": "b1", "tf": j}})
        q = "b%d" % (nb + 1)
        prog.append({"op": "add", "b": q, "total": 2, "after": "b1"})
        prog.append({"op": "refresh"})
        prog.append({"op": "incr", "b": q, "n": 1})
        order = ["b2"] + (["b3"] if nb == 3 else [])
        rng.shuffle(order)
        for b in order:
            prog.append({"op": "incr", "b": b, "n": 2})
            for j in range(1, 4):
                prog.append({"op": "refresh"})
                prog.append({"op": "nop", "when": {"b": b, "tf": j}})
        prog.append({"op": "incr", "b": q, "n": 1})
        for _ in range(4):
            prog.append({"op": "refresh"})
            prog.append({"op": "nop"})
        prog.append({"op": "wait"})
        for b in ["b1", "b2"] + (["b3"] if nb == 3 else []) + [q]:
            prog.append({"op": "get", "b": b})
        return {"id": sid, "family": "latewindow", "cfg": cfg, "clients": [prog],
                "sched": {"mode": "random", "seed": rng.randrange(1 << 30), "tickw": 1, "steps": [], "budget": 0, "bias": []}, "stats": False}
    if name == "popqueue":
        # pop-completed mode with bars queued behind others: a finished predecessor hands its place to its successor instead of
        # being popped, and bars that finish later are popped above the successor that is still running
        sc = gen_base(rng, sid, "popqueue", pop=True, n=rng.randint(3, 5), allow_queue=True)
        for o in sc["clients"][0]:
            if o["op"] == "add" and o.get("after"):
                o.pop("rm", None)
        return sc
    raise ValueError(name)


def batch(seed, counts):
    """counts: list of (family, n).  Returns scenarios with unique ids."""
    rng = random.Random(seed)
    out = []
    for fam, n in counts:
        for i in range(n):
            out.append(family(fam, rng, "%s-%d-%d" % (fam, seed, i)))
    return out


def pty_programs(seed, n):
    """Programs for the pseudo-terminal driver: bars below, at and above the terminal height, extender rows,
    pop-completed mode, text in between; every step sequence ends with all bars finished."""
    rng = random.Random(seed)
    out = []
    for i in range(n):
        h = rng.randint(2, 5)
        nb = rng.randint(1, h + 1)
        pop = rng.random() < 0.5
        bars = [{"ext": rng.choice([0, 0, 0, 1, 2]), "nopop": pop and rng.random() < 0.2, "rm": (not pop) and rng.random() < 0.3} for _ in range(nb)]
        exact = True
        if pop and rng.random() < 0.3:
            # more rows than the terminal holds in pop mode: the clipped rows are the popped ones, so which rows
            # persist is not knowable from the program; only "no row twice / nothing too wide or high" is checked
            exact = False
        elif pop:
            # a popped bar must be visible when it is popped: keep every frame within the terminal
            # (with more rows than the terminal holds the clipped rows are the popped ones: DESIGN.md C18)
            while sum(1 + b["ext"] for b in bars) > h - 1 and bars:
                if any(b["ext"] for b in bars):
                    next(b for b in bars if b["ext"])["ext"] -= 1
                else:
                    bars.pop()
            if not bars:
                bars = [{"ext": 0, "nopop": False, "rm": False}]
                h = max(h, 2)
            nb = len(bars)
        steps = []
        order = list(range(nb))
        live = []
        todo = list(order)
        rng.shuffle(todo)
        fin = []
        while todo or live:
            r = rng.random()
            if todo and (r < 0.4 or not live):
                b = todo.pop()
                steps.append({"op": "add", "b": b})
                live.append(b)
            elif r < 0.55:
                steps.append({"op": "text", "b": 0})
            elif r < 0.8 and live:
                b = live.pop(rng.randrange(len(live)))
                steps.append({"op": "done", "b": b})
            steps.append({"op": "refresh", "b": 0})
            if rng.random() < 0.5:
                steps.append({"op": "refresh", "b": 0})
        for _ in range(3):
            steps.append({"op": "refresh", "b": 0})
        out.append({"id": "pty-%d-%d" % (seed, i), "h": h, "w": 40, "pop": pop, "exact": exact, "bars": bars, "steps": steps,
                    "reqw": rng.choice([0, 0, 20, 64])})   # WithWidth: not given, narrower, wider than the terminal (which then limits the rows)
    return out
