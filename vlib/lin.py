"""C10: linearizability of concurrent bar calls (BarLin.tla by TLC over recorded histories) and
data races (go race detector on free-running scenario workers)."""
import json
import os
import shutil
import time

from . import core, gen

OPS = {"incr", "ewma", "setcur", "settotal", "trigger", "refill", "abort", "getcur", "getcomp", "getab", "barwait", "cancel", "shutdown"}


def histories(traces, scen):
    out = []
    for tid, evs in traces.items():
        sc = scen[tid]
        total = None
        for c in sc["clients"]:
            for o in c:
                if o["op"] == "add" and o["b"] == "b1":
                    total = o["total"]
        if total is None:
            continue
        wait_ret = None
        pend, ops = {}, []
        bad = False
        for e in evs:
            if e["ev"] == "inv" and (e.get("b") == "b1" or e["op"] in ("cancel", "shutdown")) and e["op"] in OPS:
                pend[(e["c"], e["i"])] = e
            elif e["ev"] == "ret" and (e["c"], e["i"]) in pend:
                i = pend.pop((e["c"], e["i"]))
                op = "cancel" if e["op"] in ("cancel", "shutdown") else ("incr" if e["op"] == "ewma" else e["op"])
                ops.append({"op": op, "a": int(e.get("n", 0)), "f": bool(e.get("flag", False)), "inv": i["seq"], "ret": e["seq"],
                            "res": int(e.get("res", 0))})
            elif e["ev"] in ("hang", "panic", "race"):
                bad = True
        if bad or pend or not ops or len(ops) > 20:
            continue
        out.append({"id": tid, "total": total, "ops": ops})
    return out


def judge_histories(hs, wd):
    """TLC (BarLin.tla) searches a linearization of every history; returns the ids of those that have none."""
    failed, states, trans = [], 0, 0
    B = 400
    for bi in range(0, len(hs), B):
        tf = os.path.join(wd, "lin-%d.ndjson" % bi)
        of = os.path.join(wd, "lin-%d.out" % bi)
        with open(tf, "w") as f:
            for h in hs[bi:bi + B]:
                f.write(json.dumps(h) + "\n")
        rc, out = core.run_tlc(core.SPECS, "MCBarLin.tla", "BarLin.cfg", env={"LIN_TRACE": tf, "LIN_OUT": of}, workers=1,
                               timeout=1800, java_opts="-Xss64m")
        if rc != 0 or not os.path.exists(of):
            raise core.Infra("BarLin.tla failed:\n" + out[-3000:])
        st, tr = core.tlc_stats(out)
        states += st
        trans += tr
        failed.extend(json.load(open(of))["failed"])
    return failed, states, trans


def run(prop, tier, seed):
    t0 = time.time()
    wd = core.workdir(prop)
    try:
        lines, nviol = [], 0
        n_lin = 400 if tier == "quick" else 8000
        # 1. linearizability: free-running histories judged by TLC
        binary = core.build_harness(wd)
        scs = gen.batch(seed, [("lin", n_lin)])
        scen = {s["id"]: s for s in scs}
        traces = core.run_scenarios(binary, wd, scs, chunk=25)
        hs = histories(traces, scen)
        failed, states, trans = judge_histories(hs, wd)
        os.makedirs(os.path.join(core.ROOT, "replays"), exist_ok=True)
        byid = {h["id"]: h for h in hs}
        for tid in failed[:10]:
            path = os.path.join(core.ROOT, "replays", "C10-%s.json" % tid)
            json.dump({"property": "C10", "rule": "not-linearizable", "history": byid[tid], "scenario": scen[tid]}, open(path, "w"))
            lines.append("VIOLATION property=C10 replay=%s rule=not-linearizable ops=%d" % (path, len(byid[tid]["ops"])))
        nviol += len(failed)
        # the other monitors see these executions too (hang, panic, terminal-state rules)
        bad, st2, tr2, nev = core.run_obs(traces, wd)
        states += st2
        trans += tr2
        # 2. data races: the same kind of programs, and ordinary multi-bar programs, under the race detector
        n_race = (150, 60, 40, 50) if tier == "quick" else (2500, 1000, 600, 800)
        rbin = core.build_harness(wd, race=True)
        rscs = gen.batch(seed + 1, [("lin", n_race[0]), ("base@free", n_race[1]), ("pop@free", n_race[2]), ("queue@free", n_race[3])])
        rtraces = core.run_scenarios(rbin, wd, rscs, chunk=20, timeout=2400)
        rbad, st3, tr3, nev3 = core.run_obs(rtraces, wd)
        states += st3
        trans += tr3
        from . import plans
        rscen = {s["id"]: s for s in rscs}
        l2, nv2, known = plans.judge("C10", bad + rbad, dict(scen, **rscen), wd)
        lines.extend(l2)
        nviol += nv2
        races = [b for b in rbad if b["r"] == "data-race"]
        cov = {"states": states, "transitions": trans, "traces_validated_against_impl": len(hs) + len(rtraces),
               "samples": [{"history": h} for h in hs[:2]] + [{"race_run": rscs[0]["id"]}],
               "evaluations": len(hs) + len(rtraces), "distinct_nontrivial": len({json.dumps([(o["op"], o["a"], o["res"]) for o in h["ops"]]) for h in hs if len(h["ops"]) >= 4}),
               "rule": "free-running histories of 2-4 client goroutines on one bar (auto-refresh 2ms or non-refreshing), distinct by call/result "
                       "sequence with >= 4 calls; linearization searched by TLC (BarLin.tla); %d race-detector runs" % len(rtraces),
               "exhaustive": False, "histories": len(hs), "not_linearizable": len(failed), "race_runs": len(rtraces), "race_reports": len(races),
               "checker_cmd": "tlc MCBarLin.tla ; harness.race.test TestWorker (GORACE=halt_on_error=1)"}
        return {"cov": cov, "lines": lines + ["C10 %s lin: %d histories, %d not linearizable; %d race runs, %d reports; %.1fs" % (
            tier, len(hs), len(failed), len(rtraces), len(races), time.time() - t0)], "nviol": nviol,
            "assume": ["the Go race detector finds the races of the executions it sees; the specification contributes the shapes (readers during "
                       "render, during exit and after exit), not a proof of race freedom",
                       "invocation/return sequence numbers are taken under one mutex in the calling goroutine"]}
    finally:
        shutil.rmtree(wd, ignore_errors=True)
