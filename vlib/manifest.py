"""Writes MANIFEST.json from the tables below (python3 -m vlib.manifest)."""
import json
import os
import subprocess

ROOT = os.path.dirname(os.path.dirname(os.path.abspath(__file__)))

SCHED_NOTE = ("A hang or leak counts as a recorded finding only if MPBCore.tla reproduces the execution's gate trace. MPBCore.tla part (where the property has one, DESIGN.md section 4): exhaustive TLC on 1-3 small configurations, its behaviours replayed gate by gate, "
              "every recorded gate trace validated by MPBTrace.tla; drift is recorded, verdicts come from Obs.tla on real executions. Trusted: TLC; go1.26 testing/synctest quiescence; the frame tokeniser and the self-delimiting row markers of the "
              "harness; the mapping of recorded findings by rule name. Bounds: programs of 1-4 bars and 1-3 client goroutines, "
              "schedules sampled by a seeded random gate scheduler and by TLC-generated schedules of MPBCore.tla.")

CHECKS = {
    "C01": ("model_checking", "MPBCore.tla is model-checked (deadlock, Termination) for small configurations; its schedules and seeded random "
            "schedules are executed on the real library through the verif gate hooks; every execution is judged by the TLA+ monitor "
            "Obs.tla (rule hang: an exact stuck state, or a Wait still pending after a fair drain of K render cycles).", "8 C01"),
    "C02": ("model_checking", "NoPanic on MPBCore.tla; on the real library a panic kills the scenario worker and is attributed to its trace; late "
            "calls (Add/Write/mutators/getters after Wait) are checked by Obs.tla rules late-add, late-write, final-values-changed, wrong-id; "
            "Api.tla enumerates every place where a nil value is a valid argument (x kind of nil x refresh mode) and the eight conditional option helpers (x condition) and each case runs in a process of its own; "
            "a library goroutine that spins is reported by a real-time watchdog.", "8 C02"),
    "C03": ("model_checking", "Obs.tla rules last-frame-missing, last-frame-has-removed, last-row-not-final, write-after-wait evaluated by TLC on "
            "recorded executions (final getters after Wait vs the parsed last frame); decoration-does-not-match-state, finished-bar-not-retired, "
            "row-group-incomplete on every frame; families with a user wait group, manual refresh, frames as high as the row limit. "
            "BarText.tla: the filler text as a function of the stack of filler options (OnComplete / OnAbort / Clear / middleware) and the bar's "
            "state, every case replayed on a real bar, every frame compared.", "8 C03"),
    "C05": ("model_checking", "Obs.tla rules dup-in-frame, reappears, missing (ret(Add) < cycle start), unknown-bar, notifier-list on every frame "
            "of every recorded execution; render-request-ignored (requests vs cycles, also under a render delay), detached-push-with-room-in-the-queue "
            "(130+ bars with a long queue).", "8 C05"),
    "C06": ("model_checking", "Obs.tla keeps the promised priority of every bar (default = creation order, immediate and lazy changes, hand-over to "
            "a queued successor) and checks every stored frame's order, with the one-frame exemption after a lazy change.", "8 C06"),
    "C07": ("model_checking", "Fill.tla (the bar filler as a step machine over component widths; termination as a liveness property, exact body "
            "width and never-too-wide as invariants) and Row.tla (decorator layout, cut with ellipsis, spacing) are model-checked by TLC; every "
            "terminated call / layout TLC enumerates is replayed on the real fillers (2 palettes x 2 directions, spinner with frames of different widths, "
            "history-independence of the bar filler, each row drawn again with colour-only Meta functions on every component) and on one-frame containers; containers under the gate scheduler (Obs.tla rules row-too-wide, decorator-width-report): "
            "narrow ones (width 1-32), frames with more rows than fit whose clipped bars come into view later, frames exactly as high as the limit.", "8 C07"),
    "C08": ("model_checking", "FillArith.tla: monotone, bounded, nearest-cell and end-point clauses checked by TLC over a grid; its table is replayed "
            "on the real filler at scales up to MaxInt64; random int64 triples are judged by exact integer arithmetic; refill clauses via Fill.tla rows.", "8 C08"),
    "C09": ("model_checking", "BarState.tla (one action per mutator, phases live/term/exited) is model-checked by TLC (invariants and action "
            "properties of the documented rules); TLC emits its complete labelled transition relation and every transition (quick: a seeded "
            "sample) is replayed on a real bar as path+edge, the getters after every call being explained by a subset construction over the relation; "
            "one walk in five with every number scaled by 2^33 or 2^59.  The same rules for every integer: Apalache discharges an inductive invariant "
            "of BarRules.tla (BarInd.tla) and nine action properties as one-step obligations, and must find the counterexample in the unrepaired rule.", "5.2"),
    "C10": ("model_checking", "free-running histories (2-4 client goroutines on one bar while it is rendered, completes and exits) are checked "
            "for linearizability against BarState by TLC (BarLin.tla searches linearization points; the bar's exit is a silent step); "
            "the same programs (plus queued bars, average decorators adjusted while frames are drawn, several moving-average decorators) run under the Go race "
            "detector, a report with library frames is a violation; ten containers at work at once under the race detector.", "8 C10"),
    "C11": ("model_checking", "BarState.tla invariants (exclusive, stable) by TLC and, for every integer, by Apalache (BarInd.tla: inductive invariant, "
            "ActTerminalForEver, ActAbortedStable, ActCompletedStable); on real executions Obs.tla rules completed-and-aborted, "
            "completed-unstable, aborted-unstable, row-completed-and-aborted, row-terminal-state-changed, not-exactly-one-terminal-state.", "8 C11"),
    "C12": ("model_checking", "Obs.tla rules column-width (all widths handed back in one column equal the maximum needed), plain-width, "
            "row-misaligned (text offsets) on every frame; probe decorators vary their needs per frame.", "8 C12"),
    "C13": ("model_checking", "Obs.tla rules text-lost, text-duplicated, rejected-text-emitted, text-out-of-order, late-write, short-write, "
            "malformed-frame (text below a bar row), text-bytes-altered (lines written in two calls, repeated lines, empty writes); the screen "
            "(Term.tla) on programs whose bars all leave while lines are still being written.", "8 C13"),
    "C14": ("model_checking", "cancel / Shutdown placed at every position of random programs; Obs.tla rules listener-count, listener-after-wait, "
            "notifier-count, running-after-done, hang; render errors in regular and final frames (the notifier still gets its one value).", "8 C14"),
    "C15": ("fault_enumeration", "fault at the k-th Fill / extender call / output Write of random programs with synchronised decorators on the other "
            "bars; Obs.tla rules frame-after-error, debug-lines, hang, goroutine-leak.", "8 C15"),
    "C16": ("model_checking", "after every scenario the worker drains all gates, waits for quiescence and inspects runtime.Stack for goroutines of "
            "its own bubble with a library frame (Obs.tla rule goroutine-leak).", "8 C16"),
    "C17": ("model_checking", "Obs.tla rules with-predecessor, successor-not-shown, queued-never-shown, priority hand-over (order), hang.", "8 C17"),
    "C18": ("model_checking", "Obs.tla rules popped-not-on-top, popped-out-of-order, finished-bar-not-retired, last-row-not-final on pop-completed programs (incl. queued bars, 6-9 bars, "
            "successors aimed at a frame window); Term.tla for the screen; MPBCore.tla invariant PoppedOnTop on configurations pop, popqueue and popprio (whose counterexample is finding F11 and replays on the code).", "8 C18"),
    "C19": ("model_checking", "Proxy.tla: the wrapped value is a script of (n, err) results with capabilities; invariants Transparent, Accounted, "
            "NeverOver, AllSamples hold on the reference machine (TLC); every terminal case is executed on the real ProxyReader / ProxyWriter and "
            "compared (results, forwarded Close, offered fast path, Bar.Current, samples seen by a recording moving average).", "8 C19"),
    "C20": ("model_checking", "Decor.tla: the EwmaUpdate accumulator with the conservation invariant (time received = time accounted + carried), "
            "unit selection for symbolic byte counts, the h/m/s split and exact percentages, checked by TLC; every terminal case is executed on "
            "the real decorators; the median window and the exponentially weighted average (exact fractions, IsAnAverage) replayed on NewMedian / EwmaETA / EwmaSpeed "
            "(samples through a real bar and 0/1/3 wrappers into a recording moving average; printed numbers parsed back and "
            "compared in exact arithmetic; NaN/Inf/panic and reported-width mismatches are violations; freeze after completion on a fake clock); "
            "the two ETA time normalizers as step machines (NormShown, NormCountsDown, NormFresh, NormTolerant), every call sequence replayed on the real "
            "normalizers and through MovingAverageETA on a fake clock.", "8 C20"),
    "C04": ("model_checking", "TermDesign.tla: every short sequence of frames (bars added/removed/popped, extender rows, text, more rows than the "
            "terminal is high) produced by the flush/cwriter protocol on a VT100-subset terminal with scrollback; invariant InPlace (everything "
            "reachable on the terminal = persisted lines ++ current rows).  TermTrace.tla runs the frames of real executions (buffer; real pty "
            "of height 2-5) through the same emulator.  Obs.tla rules output-before-delay-end, output-without-refresh, row-too-wide, row-group-incomplete.  "
            "Ten containers at work at once: each one's frames obey the protocol on their own.", "8 C04"),
}

TECH0 = {p: "TLA+ trace validation (TLC on Obs.tla) of gate-scheduled executions of the real library; MPBCore.tla model checking"
        for p in CHECKS}
TECH = dict(TECH0)
TECH["C10"] = "TLC linearizability search (BarLin.tla over BarState.tla) on recorded histories; Go race detector on free-running workers"
TECH["C07"] = "TLC model checking of Fill.tla (liveness + invariants) and Row.tla; replay of the TLC-computed tables on the real fillers"
TECH["C08"] = "TLC evaluation of FillArith.tla over a grid; table replay at int64 scales; exact-arithmetic oracle on random int64 inputs"
TECH["C19"] = "TLC enumeration of Proxy.tla (reference machine + invariants); every terminal case replayed on the real proxies"
TECH["C20"] = "TLC checking of Decor.tla (conservation of sample time, unit selection, h/m/s split); every case replayed on the real decorators and formatter types"
TECH["C04"] = "TLC model checking of TermDesign.tla (frame protocol on an emulated terminal); TLC trace validation (TermTrace.tla) of buffer and real-pty output; Obs.tla rules for delay / no-refresh"
TECH["C18"] = "TLA+ trace validation (Obs.tla, TermTrace.tla) of gate-scheduled and pty executions; TLC model checking of TermDesign.tla"
TECH["C09"] = "TLC model checking of BarState.tla + replay of its TLC-emitted transition relation on the real Bar; Apalache inductive invariant of the same rules over unbounded integers (BarInd.tla)"
TECH["C11"] = "TLC model checking of BarState.tla + replay of its transition relation; Apalache inductive invariant (BarInd.tla); TLA+ trace validation (Obs.tla) of gate-scheduled executions"

NOT_YET = {}


def main():
    props = [json.loads(l)["id"] for l in open(os.path.join(ROOT, "properties.jsonl"))]
    hooks = subprocess.run(["git", "-C", "/repo", "log", "--format=%H %s"], capture_output=True, text=True).stdout.splitlines()
    hook_commits = [l.split()[0] for l in hooks if l.split(" ", 1)[1].startswith("verif:")]
    checks = []
    for p in props:
        if p not in CHECKS:
            continue
        cat, text, ref = CHECKS[p]
        checks.append({
            "property_id": p,
            "quick_cmd": "./check %s quick" % p,
            "thorough_cmd": "./check %s thorough" % p,
            "evidence_file": "/verif/evidence/%s.json" % p,
            "replay_cmd_template": "./check replay {path}",
            "engine": "tla-trace-validation",
            "level_claimed": {"category": cat, "text": text, "design_ref": "DESIGN.md section " + ref},
            "level_note": SCHED_NOTE,
            "technique": TECH[p],
        })
    na = [{"property_id": p, "reason": NOT_YET.get(p, "check under construction in this round: specification written next (see DESIGN.md section 13)")}
          for p in props if p not in CHECKS]
    m = {
        "version": 1,
        "setup_cmd": "./check setup",
        "hooks": {"guard": "verif", "enable": "go1.26 test -c -tags verif (GOTOOLCHAIN=local GOFLAGS=-mod=mod GOPROXY=off)",
                  "baseline_off_cmd": "cd /repo && GOFLAGS=-mod=mod GOPROXY=off go test -json -vet=off -count=1 ./...",
                  "source_commits": hook_commits, "add_only": True},
        "engines": [
            {"name": "tla-trace-validation", "path": "/verif/specs", "serves_properties": sorted(CHECKS),
             "kind_free_text": "TLA+ specifications (MPBCore implementation-level, Obs observable monitors, functional reference machines) checked by TLC; "
                               "bound to the code by a gate scheduler in a testing/synctest bubble (harness/) that replays TLC schedules and records traces"}],
        "checks": checks,
        "notes": "known findings: /verif/known_findings.json; design: /verif/DESIGN.md",
        "not_applicable": na,
    }
    json.dump(m, open(os.path.join(ROOT, "MANIFEST.json"), "w"), indent=1)
    print("MANIFEST.json: %d checks, %d not_applicable" % (len(checks), len(na)))


if __name__ == "__main__":
    main()
