"""What each property's check runs, and the verdict logic shared by all of them."""
import hashlib
import json
import os
import subprocess
import shutil
import time

from . import core, gen

FINDINGS = json.load(open(os.path.join(core.ROOT, "known_findings.json")))["findings"]


def known_rules(prop):
    out = {}
    for f in FINDINGS:
        if f["status"] == "known" and prop in f["properties"]:
            for r in f["rules"]:
                out[r] = f
    return out


# Scenario families per property: (family, quick count, thorough count).  Every property has
# families in which no recorded finding can fire (n <= q, no late queueing, no fault) next to
# the ones in which the findings live.
SAFE = [("base", 150, 3000), ("pop", 60, 1500), ("queue", 60, 1500), ("stop", 60, 1500), ("stoppop", 80, 1500), ("manual", 40, 800), ("none", 30, 500), ("narrow", 60, 1000), ("overtall", 30, 500), ("uwg", 30, 500)]
FIND = [("nq", 60, 1200), ("latequeue", 40, 800), ("fault", 60, 1200), ("latefault", 40, 800)]

FINDING_FAMILIES = {"fault", "latefault", "nq", "latequeue", "narrow", "latewindow"}

SCHED_PLANS = {
    "C01": SAFE + FIND + [("delay", 40, 800)],
    "C02": SAFE + FIND,
    "C03": [("base", 200, 4000), ("uwg", 60, 1000), ("manual", 80, 1500), ("tall", 30, 400), ("tail", 150, 3000), ("pop", 80, 1500), ("queue", 60, 1500), ("nq", 40, 800)],
    "C05": [("many", 3, 30), ("delay", 40, 800), ("fault", 100, 2000), ("base", 200, 4000), ("pop", 80, 1500), ("queue", 80, 1500), ("stop", 40, 1000), ("nq", 60, 1200), ("latewindow", 30, 600), ("manualqueue", 30, 600)],
    "C06": [("prio", 150, 3000), ("base", 250, 5000), ("pop", 100, 2000), ("queue", 80, 1500), ("stop", 40, 800), ("manualqueue", 40, 800), ("latequeue", 30, 600), ("heap", 60, 1200), ("latewindow", 30, 600)],
    "C11": SAFE + [("fault", 80, 1500)],
    "C12": [("narrow", 80, 1500), ("base", 250, 5000), ("pop", 60, 1000), ("queue", 60, 1000), ("stop", 40, 800), ("nq", 40, 800)],
    "C13": [("base", 250, 5000), ("tail", 150, 3000), ("rmtail", 80, 1500), ("pop", 60, 1000), ("stop", 60, 1500), ("manual", 40, 800)],
    "C14": [("stop", 250, 5000), ("stoppop", 80, 1500), ("stop@free", 150, 3000), ("base@free", 50, 1000), ("manual", 60, 1000), ("none", 60, 1000), ("base", 60, 1000), ("latefault", 60, 1000), ("fault", 40, 800)],
    "C15": [("fault", 250, 5000), ("latefault", 80, 1500), ("base", 40, 500)],
    "C16": SAFE + FIND,
    "C17": [("queue", 250, 5000), ("overtall", 60, 1000), ("manualqueue", 100, 2000), ("latequeue", 80, 1500), ("pop", 40, 800), ("popqueue", 60, 1000), ("latewindow", 60, 1000)],
    "C18": [("pop", 300, 6000), ("tall", 40, 600), ("base", 60, 1000), ("heap", 40, 800), ("popqueue", 80, 1500), ("latewindow", 60, 1000)],
}


def trace_hash(evs):
    h = hashlib.sha1()
    for e in evs:
        if e["ev"] in ("step", "rel"):
            h.update(e["g"].encode())
        elif e["ev"] in ("inv", "ret", "out"):
            h.update((e["ev"] + str(e.get("op", "")) + str(e.get("b", "")) + str(e.get("ngroups", ""))).encode())
    return h.hexdigest()


def nontrivial(evs):
    """A trace is non-trivial when the container drew at least one frame with a bar, or ended
    by cancellation / error / hang: something the property could have been broken by."""
    for e in evs:
        if e["ev"] == "out" and e.get("ngroups", 0) > 0:
            return True
        if e["ev"] in ("hang", "panic", "fault"):
            return True
    return False


def judge(prop, bad, scen_by_id, wd):
    """Splits the broken rules that concern `prop` into known findings and violations."""
    kr = known_rules(prop)
    mine = [b for b in bad if prop in b["p"].split(",")]
    known, viol = {}, []
    for b in mine:
        if b["r"] in kr:
            known.setdefault(kr[b["r"]]["id"], []).append(b)
        else:
            viol.append(b)
    os.makedirs(os.path.join(core.ROOT, "replays"), exist_ok=True)
    lines = []
    for fid, bs in sorted(known.items()):
        f = next(x for x in FINDINGS if x["id"] == fid)
        lines.append("KNOWN-FINDING: property=%s %s: %s (%d executions, e.g. %s rule %s)" % (
            prop, fid, f["what"][:160], len({b["tr"] for b in bs}), bs[0]["tr"], bs[0]["r"]))
    seen = set()
    for b in viol:
        if (b["tr"], b["r"]) in seen:
            continue
        seen.add((b["tr"], b["r"]))
        if len(seen) > 20:
            break
        path = os.path.join(core.ROOT, "replays", "%s-%s.json" % (prop, b["tr"]))
        sc = scen_by_id.get(b["tr"])
        with open(path, "w") as fh:
            json.dump({"property": prop, "rule": b["r"], "info": b["info"], "seq": b["seq"], "scenario": sc}, fh)
        lines.append("VIOLATION property=%s replay=%s rule=%s info=%s" % (prop, path, b["r"], b["info"][:200]))
    return lines, len(viol), known


def validate_sample(wd, sample, traces, soft=True):
    """code -> spec for generated programs: each sampled scenario becomes an MPBCore configuration of its own and its
    recorded gate trace must be a behaviour of it (drift is recorded, never a verdict)."""
    from concurrent.futures import ThreadPoolExecutor
    from . import corebind as cb
    res = {"accepted": 0, "rejected": 0, "steps": 0, "states": 0, "transitions": 0, "drift": []}

    def one(sc):
        sub = os.path.join(wd, "gv-" + sc["id"].replace("@", "_"))
        os.makedirs(sub, exist_ok=True)
        evs = traces.get(sc["id"], [])
        if any(e["ev"] in ("panic", "race") for e in evs):
            return None
        # one successor of a state in which many goroutines can move at once may take TLC minutes (the closure of a big step
        # branches at every select): a sampled validation is given up after two minutes and counted, it decides nothing
        try:
            if not soft:   # an execution whose attribution to a recorded finding depends on the answer is never given up
                return cb.validate_traces(sub, "g", {sc["id"]: evs}, cfg=cb.scenario_to_config(sc))
            return cb.validate_traces(sub, "g", {sc["id"]: evs}, cfg=cb.scenario_to_config(sc), timeout=120, soft=True)
        except cb.SoftTimeout:
            return "timeout"
    with ThreadPoolExecutor(max_workers=core.NCPU) as ex:
        for sc, r in zip(sample, ex.map(one, sample)):
            if r is None:
                continue
            if r == "timeout":
                res["given_up"] = res.get("given_up", 0) + 1
                continue
            acc, rej, st, tr, n = r
            res["accepted"] += len(acc)
            res["rejected"] += len(rej)
            res["drift"] += rej
            res["steps"] += n
            res["states"] += st
            res["transitions"] += tr
    return res


def sched_part(prop, tier, seed, extra_cov=None, extra_assume=None, tlc_runs=()):
    t0 = time.time()
    wd = core.workdir(prop)
    try:
        binary = core.build_harness(wd)
        plan = SCHED_PLANS[prop]
        counts = [(f, q if tier == "quick" else t) for f, q, t in plan]
        scs = gen.batch(seed, counts)
        # a sample of the programs is also recorded gate by gate and validated against MPBCore.tla
        from . import corebind as cb
        nval = 24 if tier == "quick" else 600
        # (programs with very many bars are left to the monitor: MPBTrace needs over ten minutes for one of them)
        sample = [x for x in scs if x["sched"]["mode"] != "free" and cb.scenario_to_config(x) is not None
                  and cb.scenario_to_config(x)[0] <= 24][:nval]
        for x in sample:
            x["stats"] = True
        # in the families in which the recorded findings live every translatable program is recorded gate by gate: a hang
        # or leak is only attributed to a recorded finding if the specification, which contains the finding's mechanism,
        # reproduces the execution
        for x in scs:
            if (x["family"] in FINDING_FAMILIES and x["sched"]["mode"] != "free" and cb.scenario_to_config(x) is not None
                    and cb.scenario_to_config(x)[0] <= 24):
                x["stats"] = True
        traces = core.run_scenarios(binary, wd, scs)
        bad, st, tr, nev = core.run_obs(traces, wd)
        scen_by_id = {s["id"]: s for s in scs}
        gate = validate_sample(wd, sample, traces)
        kr = known_rules(prop)
        suspects = sorted({b["tr"] for b in bad if prop in b["p"].split(",") and b["r"] in kr and b["r"].split("/")[0] in ("hang", "goroutine-leak")
                           and scen_by_id[b["tr"]].get("stats") and scen_by_id[b["tr"]] not in sample})
        explained = validate_sample(wd, [scen_by_id[t] for t in suspects], traces, soft=False)
        unexplained = set(explained["drift"]) | (set(gate["drift"]) & {b["tr"] for b in bad})
        for b in bad:
            if b["tr"] in unexplained and b["r"] in kr and b["r"].split("/")[0] in ("hang", "goroutine-leak"):
                b["r"] = b["r"].split("/")[0] + "/not-reproduced-by-the-specification"
        lines, nviol, known = judge(prop, bad, scen_by_id, wd)
        hashes = {trace_hash(evs) for evs in traces.values() if nontrivial(evs)}
        sample_ids = list(traces)[:3]
        samples = []
        for tid in sample_ids:
            evs = traces[tid]
            samples.append({"trace": tid, "cfg": scen_by_id[tid]["cfg"], "events": len(evs),
                            "frames": sum(1 for e in evs if e["ev"] == "out"),
                            "program": [[o["op"] + ":" + o.get("b", "") for o in c] for c in scen_by_id[tid]["clients"]]})
        states, trans = st + gate["states"], tr + gate["transitions"]
        model = []
        for name, fn in tlc_runs:
            r = fn(tier, seed, wd)
            states += r["states"]
            trans += r["transitions"]
            model.append(dict(r, name=name))
            lines.extend(r.get("lines", []))
            nviol += r.get("violations", 0)
        cov = {"states": states, "transitions": trans, "traces_validated_against_impl": len(traces),
               "samples": samples, "evaluations": len(traces), "distinct_nontrivial": len(hashes),
               "rule": "seeded random client programs (families %s) executed on the real library under a seeded random gate "
                       "scheduler; distinct = distinct sequences of API calls and frames among traces that drew a bar or ended "
                       "by error/cancel/hang" % ",".join(f for f, _ in counts),
               "exhaustive": False, "monitor_events": nev, "families": dict(counts),
               "gate_traces_accepted": gate["accepted"], "gate_traces_rejected": gate["rejected"], "gate_traces_given_up_after_2_min": gate.get("given_up", 0), "gate_steps": gate["steps"],
               "drift_traces": gate["drift"][:10],
               "finding_traces_reproduced_by_the_specification": explained["accepted"], "finding_traces_not_reproduced": sorted(unexplained)[:10],
               "known_findings": {k: len({b["tr"] for b in v}) for k, v in known.items()}, "model_runs": model,
               "checker_cmd": "tlc Obs.tla (batched traces) ; harness.test TestWorker"}
        if extra_cov:
            cov.update(extra_cov)
        assume = ["synctest quiescence is exact", "row markers are self-delimiting", "TLC evaluates Obs.tla correctly",
                  "known findings are matched by rule name, which carries the mechanism (specs/Obs.tla)"]
        lines.append("%s %s sched: %d traces, %d monitor states, %d violations; gate traces vs MPBCore: %d accepted, %d rejected; %.1fs" % (
            prop, tier, len(traces), st, nviol, gate["accepted"], gate["rejected"], time.time() - t0))
        return {"cov": cov, "lines": lines, "nviol": nviol, "assume": assume + (extra_assume or [])}
    finally:
        shutil.rmtree(wd, ignore_errors=True)


def replay(path):
    d = json.load(open(path))
    if d.get("kind") == "barseq":
        from . import barstate
        return barstate.replay(d)
    if d.get("how"):
        from . import fillpart
        return fillpart.replay_row(d)
    if d.get("kind") == "stress":
        r = stress_part(d["property"], "quick", 1)
        for l in r["lines"]:
            print(l)
        return 1 if r["nviol"] else 0
    if d.get("kind") == "twins":
        r = twins_part(d["property"], "quick", 1)
        for l in r["lines"]:
            print(l)
        return 1 if r["nviol"] else 0
    if "history" in d:
        return replay_lin(d)
    if "frame" in d:
        return replay_term(d)
    sc = d["scenario"]
    wd = core.workdir("replay")
    try:
        binary = core.build_harness(wd)
        traces = core.run_scenarios(binary, wd, [sc], jobs=1)
        bad, st, tr, nev = core.run_obs(traces, wd)
        for b in bad:
            print("BROKEN", b)
        print("replayed %s: %d broken rules (recorded: %s)" % (sc["id"], len(bad), d.get("rule")))
        return 1 if any(d["property"] in b["p"].split(",") for b in bad) else 0
    finally:
        shutil.rmtree(wd, ignore_errors=True)


def replay_lin(d):
    """A free-running history cannot be repeated exactly: the program is run 20 times and every history is judged."""
    from . import lin
    wd = core.workdir("replay")
    try:
        binary = core.build_harness(wd)
        scs = []
        for i in range(20):
            sc = json.loads(json.dumps(d["scenario"]))
            sc["id"] = "%s-r%d" % (d["scenario"]["id"], i)
            sc["sched"]["seed"] = sc["sched"].get("seed", 1) + i
            scs.append(sc)
        traces = core.run_scenarios(binary, wd, scs, chunk=5)
        hs = lin.histories(traces, {s["id"]: s for s in scs})
        failed = lin.judge_histories(hs, wd)[0]
        bad, _, _, _ = core.run_obs(traces, wd)
        for t in failed:
            print("BROKEN not-linearizable", t)
        for b in bad:
            print("BROKEN", b)
        print("replayed %s 20 times: %d histories not linearizable, %d broken monitor rules" % (d["scenario"]["id"], len(failed), len(bad)))
        return 1 if failed or any("C10" in b["p"].split(",") for b in bad) else 0
    finally:
        shutil.rmtree(wd, ignore_errors=True)


def replay_term(d):
    """Runs the scenario (gate-scheduled on a buffer, or a pty program) again and interprets its frames with TermTrace.tla."""
    import subprocess
    from . import term
    wd = core.workdir("replay")
    try:
        binary = core.build_harness(wd)
        sc = d["scenario"]
        if "steps" in sc and "clients" not in sc:      # a pty program
            inp, outp = os.path.join(wd, "pty.in"), os.path.join(wd, "pty.out")
            open(inp, "w").write(json.dumps(sc) + "\n")
            p = subprocess.run([binary, "-test.run", "^TestPty$", "-test.timeout", "0"], env=dict(os.environ, VH_IN=inp, VH_OUT=outp),
                               capture_output=True, text=True, timeout=600)
            pevs = [json.loads(l) for l in open(outp)] if os.path.exists(outp) else []
            if not pevs or not pevs[-1].get("done"):
                raise core.Infra("pty driver did not finish: " + (p.stdout + p.stderr)[-1000:])
            bad, _, _ = term.run_termtrace(pevs[:-1], wd, "pty")
        else:
            traces = core.run_scenarios(binary, wd, [sc], jobs=1)
            bad, _, _ = term.run_termtrace(term.term_events(traces, {sc["id"]: sc}), wd, "buf")
        for b in bad:
            print("BROKEN", b)
        print("replayed %s: %d broken screen rules (recorded: %s)" % (sc["id"], len(bad), d.get("rule")))
        return 1 if bad else 0
    finally:
        shutil.rmtree(wd, ignore_errors=True)


def setup():
    wd = core.workdir("setup")
    try:
        core.build_harness(wd)
        rc, out = core.run_tlc(core.SPECS, "Obs.tla", "Obs.cfg", env={"OBS_TRACE": os.path.join(core.SPECS, "empty.ndjson"),
                                                                      "OBS_OUT": os.path.join(wd, "o.json")})
        if rc != 0:
            raise core.Infra("TLC cannot run Obs.tla: " + out[-2000:])
        print("setup ok")
        return 0
    finally:
        shutil.rmtree(wd, ignore_errors=True)


def barstate_part(prop, tier, seed):
    from . import barstate
    cov, lines, nviol, wall = barstate.run(prop, tier, seed)
    lines.append("%s %s barstate: %d sequences replayed, %d violations, %.1fs" % (prop, tier, cov["evaluations"], nviol, wall))
    return {"cov": cov, "lines": lines, "nviol": nviol,
            "assume": ["the getters Current/Completed/Aborted are the observation; refill and total are not observable without a frame",
                       "int64 range: arguments beyond the small model domain are covered by the homogeneity of the rules (no overflow), not by TLC"]}


PARTS = {p: [sched_part] for p in SCHED_PLANS}
SCHED_PLANS["C09"] = [("base", 150, 3000), ("stop", 50, 1000)]
PARTS["C09"] = [barstate_part, sched_part]
PARTS["C11"] = [barstate_part, sched_part]


def lin_part(prop, tier, seed):
    from . import lin
    return lin.run(prop, tier, seed)


PARTS["C10"] = [lin_part]


def fill_part(prop, tier, seed):
    from . import fillpart
    return fillpart.run(prop, tier, seed)


def proxy_part(prop, tier, seed):
    from . import fillpart
    return fillpart.table(prop, tier, seed, "Proxy.tla", "ProxyQuick.cfg", "Proxy.cfg", "TestProxyCases", "PROXY",
                          "every script of <= MaxCalls results (n in {0,1,3}, err in {none, EOF, custom}) x direction x Close x fast path x "
                          "moving-average decorator (bare and under two wrappers) x total known/unknown enumerated by TLC from Proxy.tla and "
                          "executed on the real ProxyReader/ProxyWriter; each case is a distinct configuration",
                          "proxy-disagrees-with-Proxy.tla",
                          ["byte content is checked through position-coded bytes; sample durations are only checked for plausibility (0..5s)"], variants=1)


PARTS["C19"] = [proxy_part]


def twins_part(prop, tier, seed):
    """Several containers at work in one process: each one's frames obey the frame protocol of TermDesign.tla on their
    own (cursor-up = own rows, own row count); under the race detector for C10."""
    import subprocess
    t0 = time.time()
    wd = core.workdir(prop + "w")
    try:
        race = prop == "C10"
        binary = core.build_harness(wd, race=race)
        runs = (6 if tier == "quick" else 60) if not race else (3 if tier == "quick" else 20)
        lines, nviol, frames = [], 0, 0
        os.makedirs(os.path.join(core.ROOT, "replays"), exist_ok=True)
        for i in range(runs):
            outp = os.path.join(wd, "twins-%d.out" % i)
            env = dict(os.environ, VH_OUT=outp, VH_N="400" if not race else "150")
            if race:
                env["GORACE"] = "halt_on_error=1"
            p = subprocess.run([binary, "-test.run", "^TestTwins$", "-test.timeout", "120s"], env=env, capture_output=True, text=True, timeout=300)
            out = p.stdout + p.stderr
            rows = [json.loads(l) for l in open(outp)] if os.path.exists(outp) else []
            bad = [r for r in rows if "msg" in r]
            if "DATA RACE" in out and "github.com/vbauerster/mpb/v8" in out:
                bad.append({"row": -1, "msg": "data race between containers: " + " | ".join(l.strip() for l in out.splitlines() if "vbauerster/mpb/v8" in l and "(" in l)[:300]})
            elif not rows or "done" not in rows[-1]:
                raise core.Infra("TestTwins did not finish: " + out[-1500:])
            frames += rows[-1]["done"] if rows and "done" in rows[-1] else 0
            for b in bad[:3]:
                path = os.path.join(core.ROOT, "replays", "%s-twins-%d.json" % (prop, i))
                json.dump({"property": prop, "kind": "twins", "rule": "containers-interfere", "msg": b["msg"], "race": race}, open(path, "w"))
                lines.append("VIOLATION property=%s replay=%s rule=containers-interfere %s" % (prop, path, b["msg"][:200]))
            nviol += len(bad)
        cov = {"states": 0, "transitions": 0, "traces_validated_against_impl": runs, "evaluations": frames, "distinct_nontrivial": runs,
               "samples": [{"containers": 10, "frames": frames}], "exhaustive": False,
               "rule": "%d runs of 10 containers with 1..10 one-row bars each, manual refresh hammered concurrently%s; every frame of every container "
                       "begins with cursor-up of its own row count and has its own row count" % (runs, " under the race detector" if race else ""),
               "checker_cmd": "harness%s.test TestTwins" % (".race" if race else "")}
        lines.append("%s %s twins: %d runs, %d frames, %d violations, %.1fs" % (prop, tier, runs, frames, nviol, time.time() - t0))
        return {"cov": cov, "lines": lines, "nviol": nviol, "assume": ["ten containers on 16 cores overlap their render cycles often enough within the frames drawn"]}
    finally:
        shutil.rmtree(wd, ignore_errors=True)


def stress_part(prop, tier, seed):
    """Two consequences of BarState.tla + linearizability that only thousands of overlapping calls can break: the counter is
    monotone under increments and SetTotal(-1, .) (AdoptKeepsCounter), Completed() is stable (CompletedStable)."""
    import subprocess
    from concurrent.futures import ThreadPoolExecutor
    t0 = time.time()
    wd = core.workdir(prop + "s")
    try:
        binary = core.build_harness(wd)
        workers, trials = (8, 60) if tier == "quick" else (16, 1200)

        def one(i):
            outp = os.path.join(wd, "stress-%d.out" % i)
            p = subprocess.run([binary, "-test.run", "^TestStress$", "-test.timeout", "0"], capture_output=True, text=True, timeout=3000,
                               env=dict(os.environ, VH_OUT=outp, VH_SEED=str(seed * 100 + i), VH_N=str(trials)))
            rows = [json.loads(l) for l in open(outp)] if os.path.exists(outp) else []
            if not rows or "done" not in rows[-1]:
                raise core.Infra("TestStress did not finish: " + (p.stdout + p.stderr)[-1500:])
            return rows
        bad, done = [], 0
        with ThreadPoolExecutor(max_workers=workers) as ex:
            for rows in ex.map(one, range(workers)):
                done += rows[-1]["done"]
                bad += rows[:-1]
        lines = []
        os.makedirs(os.path.join(core.ROOT, "replays"), exist_ok=True)
        for k, b in enumerate(bad[:5]):
            path = os.path.join(core.ROOT, "replays", "%s-stress-%d.json" % (prop, k))
            json.dump({"property": prop, "kind": "stress", "rule": "stress-" + b["kind"], "msg": b["msg"]}, open(path, "w"))
            lines.append("VIOLATION property=%s replay=%s rule=%s %s" % (prop, path, {"mono": "counter-goes-down", "stable": "completed-unstable"}.get(b["kind"], "terminal-answer-wrong-under-concurrent-getters"), b["msg"][:200]))
        cov = {"states": 0, "transitions": 0, "traces_validated_against_impl": done, "evaluations": done, "distinct_nontrivial": done,
               "samples": [{"trials": done}], "exhaustive": False,
               "rule": "%d trials: 4 workers increment and read the counter of one bar while SetTotal(-1, true) arrives at a random moment (the counter "
                       "never goes down); 2 workers take a bar to its total while Abort arrives at a random moment and 2 readers poll Completed() (once "
                       "true, always true); a slow decorator keeps the bar's goroutine busy; 6 goroutines ask Completed() and Aborted() of a bar that is terminal "
                       "while its goroutine is alive (every answer is the bar's state: Exclusive at every moment)" % done,
               "checker_cmd": "tlc MCBarState.tla (AdoptKeepsCounter, CompletedStable, Exclusive) ; harness.test TestStress"}
        lines.append("%s %s stress: %d trials, %d violations, %.1fs" % (prop, tier, done, len(bad), time.time() - t0))
        return {"cov": cov, "lines": lines, "nviol": len(bad), "assume": ["the overlaps occur often enough within the trials (16 cores)"]}
    finally:
        shutil.rmtree(wd, ignore_errors=True)


def api_part(prop, tier, seed):
    from . import fillpart
    return fillpart.table(prop, tier, seed, "Api.tla", "Api.cfg", "Api.cfg", "TestApiCases", "API",
                          "every place where the library accepts a nil value (filler, typed-nil filler func, builder, extender, decorators, "
                          "middleware, options, output, debug output, notifier, refresh channel, predecessor, delay channel) x refresh mode, "
                          "enumerated by TLC from Api.tla; each case runs the same small program in a process of its own (a panic in a library "
                          "goroutine cannot be recovered)",
                          "unusual-argument-breaks-the-program",
                          ["which nil values are valid is read from the guards and comments of the library's option functions"])


NORM_OBLIGATIONS = [("NInit", "NInv", 0, "OK"), ("IndInit", "NInv", 1, "OK")] + [("IndInit", a, 1, "OK") for a in (
    "ActExactBelowMinute", "ActCountsDown", "ActPositive", "ActFresh", "ActTolerant")] + [("IndInit", "ActTolerantStrict", 1, "ERROR")]


def decor_part(prop, tier, seed):
    from . import fillpart
    # the time normalizers for every estimate, interval and parameter (NormInd.tla over the operators of Norm.tla, which
    # Decor.tla enumerates and the driver replays): inductive invariant + what a call shows, and one claim that must be refuted
    wd = core.workdir(prop + "a")
    try:
        proved = core.apalache(wd, ["Norm.tla", "NormInd.tla"], "NormInd", "NNext", NORM_OBLIGATIONS)
    finally:
        shutil.rmtree(wd, ignore_errors=True)
    r = _decor_table(prop, tier, seed)
    r["cov"]["unbounded_obligations_discharged_by_apalache"] = proved
    r["lines"].append("%s %s normalizers: %d obligations discharged by Apalache for unbounded integers" % (prop, tier, len(proved)))
    return r


def _decor_table(prop, tier, seed):
    from . import fillpart
    return fillpart.table(prop, tier, seed, "MCDecor.tla", "DecorQuick.cfg", "Decor.cfg", "TestDecorCases", "DECOR",
                          "cases enumerated by TLC from Decor.tla: every sample sequence (n in {-1,0,1,3}, dur in {0,1,5}) of length <= MaxSamples "
                          "delivered through wrappers 0/1/3 deep; byte counts m*B^e+d at every unit boundary for both bases; durations h/m/s(+ms) below "
                          "60 h in four styles for elapsed and ETA; (current,total) percentages incl. the int64 scale; the two ETA time normalizers as step machines "
                          "(every sequence of up to 3/4 calls: raw estimate around the one-minute threshold x time since the call before x parameter), each replayed on "
                          "the normalizer and through the moving-average ETA decorator on a fake clock; each case is distinct",
                          "decorator-disagrees-with-Decor.tla",
                          ["the digits printed for verbs e/g are only checked to read back within a relative tolerance",
                           "elapsed / ETA / average speed run on the fake clock of a synctest bubble",
                           "TLC integers are 32-bit: byte counts are symbolic (B, e, m, d) in the specification and exact big integers in the driver"])


PARTS["C20"] = [decor_part]

SCHED_PLANS["C04"] = [("base", 120, 2500), ("tall", 30, 400), ("pop", 100, 2000), ("queue", 50, 1000), ("delay", 60, 1200), ("none", 40, 800), ("manual", 40, 800)]


def term_part(prop, tier, seed):
    """Screen-level oracle: Term.tla.  Design by TLC; recorded frames (buffer runs and real pty runs) by TLC."""
    import subprocess
    from . import term
    t0 = time.time()
    wd = core.workdir(prop + "t")
    try:
        lines, nviol = [], 0
        d = term.design(["TermDesign.cfg"] if tier == "quick" else ["TermDesign.cfg", "TermDesign4.cfg"])
        for r in d:
            if r["rc"] != 0:
                raise core.Infra("TermDesign.tla (%s) does not satisfy InPlace: the protocol model no longer matches the repaired code" % r["cfg"])
        states = sum(r["states"] for r in d)
        trans = sum(r["transitions"] for r in d)
        binary = core.build_harness(wd)
        fams = [("pop", 150, 3000), ("base", 80, 1500), ("queue", 40, 800), ("popqueue", 80, 1500), ("latewindow", 40, 800)] if prop == "C18" else [("rmtail", 120, 2500), ("base", 80, 1500), ("tail", 60, 1200)] if prop == "C13" else [("rmtail", 40, 800), ("base", 100, 2000), ("pop", 100, 2000), ("queue", 40, 800), ("popqueue", 50, 1000)]
        scs = gen.batch(seed + 7, [(f, q if tier == "quick" else t) for f, q, t in fams])
        if prop == "C13":
            scs = [x for x in scs if not x["cfg"]["pop"]]   # text above the bars: the recorded pop-mode findings (F11, F12) are not C13's business
        for sc_ in scs:
            for prog_ in sc_["clients"]:
                for o_ in prog_:
                    o_.pop("chunks", None)   # the screen oracle works on whole lines (a half line with a row behind it is C13's business)
        scen = {s["id"]: s for s in scs}
        traces = core.run_scenarios(binary, wd, scs)
        evs = term.term_events(traces, scen)
        bad, st, tr = term.run_termtrace(evs, wd, "buf")
        states += st
        trans += tr
        # what Obs.tla says about the same executions tells a recorded finding from a new violation
        obad, st2, tr2, _ = core.run_obs(traces, wd)
        states += st2
        trans += tr2
        f11 = {b["tr"] for b in obad if b["r"] in ("popped-not-on-top/priority-changed-before-pop", "popped-not-on-top/priority-below-pop-range")}
        # the terminal path on a real pseudo terminal
        progs = gen.pty_programs(seed, 60 if tier == "quick" else 1200)
        inp, outp = os.path.join(wd, "pty.in"), os.path.join(wd, "pty.out")
        with open(inp, "w") as f:
            for pg in progs:
                f.write(json.dumps(pg) + "\n")
        p = subprocess.run([binary, "-test.run", "^TestPty$", "-test.timeout", "0"], env=dict(os.environ, VH_IN=inp, VH_OUT=outp),
                           capture_output=True, text=True, timeout=3000)
        pevs = [json.loads(l) for l in open(outp)] if os.path.exists(outp) else []
        if not pevs or not pevs[-1].get("done"):
            raise core.Infra("pty driver did not finish: %s %s" % (pevs[-1:] , (p.stdout + p.stderr)[-1500:]))
        pevs = pevs[:-1]
        pbad, st3, tr3 = term.run_termtrace(pevs, wd, "pty")
        states += st3
        trans += tr3
        known = 0
        os.makedirs(os.path.join(core.ROOT, "replays"), exist_ok=True)
        seen = set()
        pscen = {pg["id"]: pg for pg in progs}
        for b in bad + pbad:
            if b["tr"] in f11:
                known += 1
                continue
            nviol += 1
            if b["tr"] in seen or len(seen) >= 10:
                continue
            seen.add(b["tr"])
            path = os.path.join(core.ROOT, "replays", "%s-term-%s.json" % (prop, b["tr"]))
            json.dump({"property": prop, "rule": b["r"], "frame": b["k"], "info": b["info"], "scenario": scen.get(b["tr"]) or pscen.get(b["tr"])}, open(path, "w"))
            lines.append("VIOLATION property=%s replay=%s rule=%s frame=%s %s" % (prop, path, b["r"], b["k"], b["info"][:160]))
        if known:
            f = next(x for x in FINDINGS if x["id"] == "F11")
            lines.append("KNOWN-FINDING: property=%s F11/F12: %s (%d frames in %d executions; screen rule not-in-place)" % (prop, f["what"][:160], known, len(f11)))
        cov = {"states": states, "transitions": trans, "traces_validated_against_impl": len({e["tr"] for e in evs}) + len(progs),
               "samples": [evs[0] if evs else {}, pevs[0] if pevs else {}], "evaluations": len(evs) + len(pevs),
               "distinct_nontrivial": len({json.dumps([l["s"].split("#")[0] for l in e["lines"]]) + str(e["cuu"]) + str(e["h"]) for e in evs + pevs if e["nrows"] > 0}),
               "rule": "every frame of gate-scheduled executions on a buffer (interpreted on a tall virtual terminal) and of seeded programs on a real "
                       "pseudo terminal of height 2..5 with 1..H+1 bars, extender rows, pop mode and text, run through the Term.tla emulator by TLC; "
                       "distinct = distinct (cursor-up, line layout, height) of frames that draw a bar",
               "exhaustive": False, "design": d, "pty_programs": len(progs), "frames": len(evs) + len(pevs),
               "checker_cmd": "tlc TermDesign.tla ; tlc TermTrace.tla ; harness.test TestPty / TestWorker"}
        lines.append("%s %s term: %d buffer frames, %d pty frames, %d violations, %.1fs" % (prop, tier, len(evs), len(pevs), nviol, time.time() - t0))
        return {"cov": cov, "lines": lines, "nviol": nviol,
                "assume": ["xterm semantics for CUU clamping, LF scrolling and ED (Term.tla); the tty layer's \\n -> \\r\\n is undone by the tokeniser",
                           "columns are not emulated: every line is checked to be narrower than the terminal instead",
                           "pty frames are delimited by the cursor-up + erase sequence; frames without one merge with their predecessor"]}
    finally:
        shutil.rmtree(wd, ignore_errors=True)


CORE_CFGS = {   # property -> (quick configs, thorough configs) of MPBCore.tla
    "C01": (["q0", "rm", "manual", "sync2q0"], ["q0", "rm", "drop", "queue", "pop", "write", "sync2", "mixed2", "shut", "manual", "manualsync", "none", "fault1", "prio", "sync2q0", "three"]),
    "C02": (["q0", "sync2q0", "priorm"], ["q0", "shut", "two", "sync2q0", "sync2q1", "priorm", "priopop"]),
    "C03": (["write", "rm", "uwg"], ["write", "rm", "drop", "two", "uwg"]),
    "C05": (["rm", "queue"], ["rm", "drop", "queue", "pop", "mixed2", "sync2q0"]),
    "C06": (["prio", "priorm"], ["prio", "priolazy", "priolazyimm", "queue", "pop", "priorm", "priopop"]),
    "C15": (["fault1", "faultsync"], ["fault1", "fault2", "faultsync"]),
    "C12": (["drop", "mixed2"], ["sync2", "mixed2", "drop", "three", "pop3"]),
    "C13": (["write", "write2"], ["write", "write2", "two"]),
    "C14": (["none", "manual", "listen"], ["shut", "none", "manual", "manualsync", "listen", "listenshut"]),
    "C16": (["q0", "rm", "faultsync"], ["q0", "rm", "drop", "queue", "pop", "write", "shut", "sync2", "fault1", "faultsync"]),
    "C17": (["queue"], ["queue", "popqueue"]),
    "C18": (["pop", "popprio"], ["pop", "pop3", "popqueue", "popprio"]),
}


def core_part(prop, tier, seed):
    """MPBCore.tla: exhaustive TLC on small configurations; its behaviours replayed as gate schedules on the
    real library; gate traces of the real library validated against it.  Verdicts come from Obs.tla on the
    real executions; a counterexample that does not reproduce is a defect of the model (exit 2)."""
    from . import corebind as cb
    t0 = time.time()
    wd = core.workdir(prop + "c")
    try:
        binary = core.build_harness(wd)
        cfgs = CORE_CFGS[prop][0 if tier == "quick" else 1]
        nsim, nrand = (30, 15) if tier == "quick" else (200, 80)
        states = trans = 0
        model, scs, expect, calm = [], [], {}, {}
        for name in cfgs:
            r = cb.check_config(wd, name, workers=core.NCPU)
            states += r["states"]
            trans += r["transitions"]
            model.append({k: r[k] for k in ("config", "states", "transitions", "violated")})
            if r["violated"]:
                # the counterexample may pass through a select with several ready cases, which the Go runtime resolves:
                # it is replayed a few times and has to reproduce at least once
                for k in range(6):
                    sid = "core-cex-%s-%d" % (name, k)
                    scs.append(cb.scenario(name, sid, [cb.to_harness(l) for l in r["schedule"]]))
                expect[name] = r["violated"]
            # half of the behaviours unrestricted (a select with several ready cases is resolved by the Go runtime, so the
            # replay may leave the schedule there), half "calm": TLC only takes steps after which no select has two ready
            # cases, and the harness can follow those to the end
            sched, _ = cb.simulate(wd, name, nsim // 2, 400, seed)
            for i, (outcome, labs) in enumerate(sched):
                scs.append(cb.scenario(name, "core-sim-%s-%d" % (name, i), [cb.to_harness(l) for l in labs]))
            sched, _ = cb.simulate(wd, name, nsim - nsim // 2, 400, seed, det="calm")
            for i, (outcome, labs) in enumerate(sched):
                sid = "core-calm-%s-%d" % (name, i)
                scs.append(cb.scenario(name, sid, [cb.to_harness(l) for l in labs]))
                calm[sid] = outcome
            for i in range(nrand):
                scs.append(cb.scenario(name, "core-rnd-%s-%d-%d" % (name, seed, i), mode="random", seed=seed * 1000 + i))
        traces = core.run_scenarios(binary, wd, scs, chunk=20)
        scen = {x["id"]: x for x in scs}
        bad, st, tr, nev = core.run_obs(traces, wd)
        states += st
        trans += tr
        lines, nviol, known = judge(prop, bad, scen, wd)
        # a model counterexample must reproduce on the code, else the model is wrong
        badtr = {b["tr"] for b in bad}
        for name, inv in expect.items():
            sids = ["core-cex-%s-%d" % (name, k) for k in range(6)]
            if not any(sid in badtr for sid in sids):
                div = [e for sid in sids for e in traces.get(sid, []) if e["ev"] == "diverge"]
                raise core.Infra("MPBCore counterexample (%s, invariant %s) does not reproduce on the code in 6 replays%s: the model is wrong" % (
                    name, inv, " (%d of them left the schedule, first at step %d)" % (len(div), div[0]["at"]) if div else ""))
        diverged = [tid for tid, evs in traces.items() if any(e["ev"] == "diverge" for e in evs)]
        calm_div = [tid for tid in diverged if tid in calm]
        # a calm behaviour that was followed to its end must end the way the specification says
        calm_end = {"agree": 0, "differ": []}
        for sid, outcome in calm.items():
            if sid in diverged or sid not in traces:
                continue
            hung = any(e["ev"] == "hang" for e in traces[sid])
            panicked = any(e["ev"] == "panic" for e in traces[sid])
            real = "panic" if panicked else "stuck" if hung else "done"
            if real == outcome:
                calm_end["agree"] += 1
            else:
                calm_end["differ"].append({"trace": sid, "model": outcome, "code": real})
        # code -> spec: every recorded gate trace must be a behaviour of the specification
        acc_n = rej_n = steps = 0
        rejected = []
        for name in cfgs:
            sub = {tid: evs for tid, evs in traces.items() if scen[tid]["family"] == "core:" + name}
            acc, rej, st2, tr2, n = cb.validate_traces(wd, name, sub)
            acc_n += len(acc)
            rej_n += len(rej)
            rejected += rej
            steps += n
            states += st2
            trans += tr2
        hashes = {trace_hash(evs) for evs in traces.values()}
        cov = {"states": states, "transitions": trans, "traces_validated_against_impl": acc_n + rej_n,
               "samples": [{"config": m["config"], "states": m["states"]} for m in model][:3] + [{"schedule": scs[0]["sched"]["steps"][:40]}],
               "evaluations": len(traces), "distinct_nontrivial": len(hashes),
               "rule": "MPBCore.tla configurations %s: exhaustive TLC; %d simulated behaviours per configuration replayed gate by gate on the real "
                       "library, %d seeded random-scheduler runs; every gate trace validated against the specification (released gate + multiset "
                       "of parked gates after each step); distinct = distinct gate/call/frame sequences" % (",".join(cfgs), nsim, nrand),
               "exhaustive": True, "model": model, "replays": len(scs), "replay_divergences": len(diverged),
               "calm_replays": len(calm), "calm_replay_divergences": len(calm_div), "calm_outcomes_agree": calm_end["agree"],
               "calm_outcomes_differ": calm_end["differ"][:10],
               "gate_traces_accepted": acc_n, "gate_traces_rejected": rej_n, "gate_steps": steps, "drift_traces": rejected[:10],
               "known_findings": {k: len({b["tr"] for b in v}) for k, v in known.items()},
               "checker_cmd": "tlc MPBCore.tla (MCgen_<cfg>) ; tlc -simulate MPBSim.tla ; harness.test TestWorker (replay) ; tlc MPBTrace.tla ; tlc Obs.tla"}
        lines.append("%s %s core: %d configs, %d model states, %d replays (%d left their schedule at a select; of %d calm ones %d did, %d ended as the model says, %d differently), "
                     "gate traces %d accepted / %d rejected, %d violations, %.1fs" % (
            prop, tier, len(cfgs), sum(m["states"] for m in model), len(scs), len(diverged), len(calm), len(calm_div), calm_end["agree"], len(calm_end["differ"]),
            acc_n, rej_n, nviol, time.time() - t0))
        if rej_n or calm_div or calm_end["differ"]:
            lines.append("note: model drift (rejected gate traces / replay divergences) is recorded in the evidence; it is not a verdict on the code")
        return {"cov": cov, "lines": lines, "nviol": nviol,
                "assume": ["the gates cover every racing channel operation (hooks in /repo, tag verif); what runs between two gates is sequential",
                           "a drifted model weakens the model-directed exploration, never the verdict: verdicts come from Obs.tla on real executions"]}
    finally:
        shutil.rmtree(wd, ignore_errors=True)


for _p in CORE_CFGS:
    PARTS[_p] = PARTS.get(_p, []) + [core_part]
PARTS["C04"] = [term_part, sched_part]
PARTS["C02"] = PARTS["C02"] + [api_part]


def bartext_part(prop, tier, seed):
    from . import fillpart
    return fillpart.table(prop, tier, seed, "BarText.tla", "BarText.cfg", "BarTextFull.cfg", "TestBarTextCases", "BTXT",
                          "every stack of filler options (BarFillerOnComplete / OnAbort / ClearOnComplete / ClearOnAbort / a user middleware) up to "
                          "MaxOpts deep x completed / aborted x number of frames drawn afterwards, enumerated by TLC from BarText.tla; in every frame "
                          "the filler shows what the specification says for the state the row's own decorator reports",
                          "filler-text-disagrees-with-BarText.tla",
                          ["frames are requested one at a time through the manual refresh channel (the interleavings are the business of the scheduled runs)"])


PARTS["C03"] = PARTS["C03"] + [bartext_part]
PARTS["C04"] = PARTS["C04"] + [twins_part]
PARTS["C10"] = PARTS["C10"] + [twins_part, stress_part]
PARTS["C11"] = PARTS["C11"] + [stress_part]
PARTS["C18"] = [sched_part, core_part, term_part]
PARTS["C13"] = PARTS["C13"] + [term_part]
SCHED_PLANS["C07"] = [("overtall", 60, 1000), ("narrow", 60, 1000), ("tall", 30, 400), ("base", 60, 1000)]
PARTS["C07"] = [fill_part, sched_part]
PARTS["C08"] = [fill_part]
LEVEL = {"C15": "fault_enumeration"}


def merge(covs):
    out = {"states": 0, "transitions": 0, "traces_validated_against_impl": 0, "evaluations": 0, "distinct_nontrivial": 0,
           "samples": [], "rule": "", "exhaustive": False, "parts": []}
    for c in covs:
        for k in ("states", "transitions", "traces_validated_against_impl", "evaluations", "distinct_nontrivial"):
            out[k] += c.get(k, 0)
        out["samples"].extend(c.get("samples", [])[:3])
        out["rule"] += (" | " if out["rule"] else "") + c.get("rule", "")
        out["parts"].append({k: v for k, v in c.items() if k not in ("samples",)})
    out["checker_cmd"] = " ; ".join(c.get("checker_cmd", "") for c in covs)
    return out


def run_property(prop, tier, seed):
    if prop not in PARTS:
        raise core.Infra("no check registered for " + prop)
    t0 = time.time()
    res = [part(prop, tier, seed) for part in PARTS[prop]]
    nviol = sum(r["nviol"] for r in res)
    assume = []
    for r in res:
        for a in r["assume"]:
            if a not in assume:
                assume.append(a)
    core.write_evidence(prop, tier, seed, LEVEL.get(prop, "model_checking"), merge([r["cov"] for r in res]), assume, time.time() - t0, nviol)
    for r in res:
        for ln in r["lines"]:
            print(ln)
    return 1 if nviol else 0
