"""What each property's check runs, and the verdict logic shared by all of them."""
import hashlib
import json
import os
import shutil
import time

from . import core, gen

FINDINGS = json.load(open(os.path.join(core.ROOT, "known_findings.json")))["findings"]


def known_rules(prop):
    out = {}
    for f in FINDINGS:
        if f["status"] == "known" and prop in f["properties"]:
            for r in f["rules"]:
                out[r] = f
    return out


# Scenario families per property: (family, quick count, thorough count).  Every property has
# families in which no recorded finding can fire (n <= q, no late queueing, no fault) next to
# the ones in which the findings live.
SAFE = [("base", 150, 3000), ("pop", 60, 1500), ("queue", 60, 1500), ("stop", 60, 1500), ("manual", 40, 800), ("none", 30, 500)]
FIND = [("nq", 60, 1200), ("latequeue", 40, 800), ("fault", 60, 1200)]

SCHED_PLANS = {
    "C01": SAFE + FIND,
    "C02": SAFE + FIND,
    "C03": [("base", 200, 4000), ("tail", 150, 3000), ("pop", 80, 1500), ("queue", 60, 1500), ("nq", 40, 800)],
    "C05": [("fault", 100, 2000), ("base", 200, 4000), ("pop", 80, 1500), ("queue", 80, 1500), ("stop", 40, 1000), ("nq", 60, 1200)],
    "C06": [("base", 250, 5000), ("pop", 100, 2000), ("queue", 80, 1500), ("stop", 40, 800)],
    "C11": SAFE,
    "C12": [("base", 250, 5000), ("pop", 60, 1000), ("queue", 60, 1000), ("stop", 40, 800), ("nq", 40, 800)],
    "C13": [("base", 250, 5000), ("tail", 150, 3000), ("pop", 60, 1000), ("stop", 60, 1500), ("manual", 40, 800)],
    "C14": [("stop", 250, 5000), ("stop@free", 150, 3000), ("base@free", 50, 1000), ("manual", 60, 1000), ("none", 60, 1000), ("base", 60, 1000)],
    "C15": [("fault", 250, 5000), ("base", 40, 500)],
    "C16": SAFE + FIND,
    "C17": [("queue", 250, 5000), ("latequeue", 80, 1500), ("pop", 40, 800)],
    "C18": [("pop", 300, 6000), ("base", 60, 1000)],
}


def trace_hash(evs):
    h = hashlib.sha1()
    for e in evs:
        if e["ev"] in ("step", "rel"):
            h.update(e["g"].encode())
        elif e["ev"] in ("inv", "ret", "out"):
            h.update((e["ev"] + str(e.get("op", "")) + str(e.get("b", "")) + str(e.get("ngroups", ""))).encode())
    return h.hexdigest()


def nontrivial(evs):
    """A trace is non-trivial when the container drew at least one frame with a bar, or ended
    by cancellation / error / hang: something the property could have been broken by."""
    for e in evs:
        if e["ev"] == "out" and e.get("ngroups", 0) > 0:
            return True
        if e["ev"] in ("hang", "panic", "fault"):
            return True
    return False


def judge(prop, bad, scen_by_id, wd):
    """Splits the broken rules that concern `prop` into known findings and violations."""
    kr = known_rules(prop)
    mine = [b for b in bad if prop in b["p"].split(",")]
    known, viol = {}, []
    for b in mine:
        if b["r"] in kr:
            known.setdefault(kr[b["r"]]["id"], []).append(b)
        else:
            viol.append(b)
    os.makedirs(os.path.join(core.ROOT, "replays"), exist_ok=True)
    lines = []
    for fid, bs in sorted(known.items()):
        f = next(x for x in FINDINGS if x["id"] == fid)
        lines.append("KNOWN-FINDING: property=%s %s: %s (%d executions, e.g. %s rule %s)" % (
            prop, fid, f["what"][:160], len({b["tr"] for b in bs}), bs[0]["tr"], bs[0]["r"]))
    seen = set()
    for b in viol:
        if (b["tr"], b["r"]) in seen:
            continue
        seen.add((b["tr"], b["r"]))
        if len(seen) > 20:
            break
        path = os.path.join(core.ROOT, "replays", "%s-%s.json" % (prop, b["tr"]))
        sc = scen_by_id.get(b["tr"])
        with open(path, "w") as fh:
            json.dump({"property": prop, "rule": b["r"], "info": b["info"], "seq": b["seq"], "scenario": sc}, fh)
        lines.append("VIOLATION property=%s replay=%s rule=%s info=%s" % (prop, path, b["r"], b["info"][:200]))
    return lines, len(viol), known


def sched_part(prop, tier, seed, extra_cov=None, extra_assume=None, tlc_runs=()):
    t0 = time.time()
    wd = core.workdir(prop)
    try:
        binary = core.build_harness(wd)
        plan = SCHED_PLANS[prop]
        counts = [(f, q if tier == "quick" else t) for f, q, t in plan]
        scs = gen.batch(seed, counts)
        traces = core.run_scenarios(binary, wd, scs)
        bad, st, tr, nev = core.run_obs(traces, wd)
        scen_by_id = {s["id"]: s for s in scs}
        lines, nviol, known = judge(prop, bad, scen_by_id, wd)
        hashes = {trace_hash(evs) for evs in traces.values() if nontrivial(evs)}
        sample_ids = list(traces)[:3]
        samples = []
        for tid in sample_ids:
            evs = traces[tid]
            samples.append({"trace": tid, "cfg": scen_by_id[tid]["cfg"], "events": len(evs),
                            "frames": sum(1 for e in evs if e["ev"] == "out"),
                            "program": [[o["op"] + ":" + o.get("b", "") for o in c] for c in scen_by_id[tid]["clients"]]})
        states, trans = st, tr
        model = []
        for name, fn in tlc_runs:
            r = fn(tier, seed, wd)
            states += r["states"]
            trans += r["transitions"]
            model.append(dict(r, name=name))
            lines.extend(r.get("lines", []))
            nviol += r.get("violations", 0)
        cov = {"states": states, "transitions": trans, "traces_validated_against_impl": len(traces),
               "samples": samples, "evaluations": len(traces), "distinct_nontrivial": len(hashes),
               "rule": "seeded random client programs (families %s) executed on the real library under a seeded random gate "
                       "scheduler; distinct = distinct sequences of API calls and frames among traces that drew a bar or ended "
                       "by error/cancel/hang" % ",".join(f for f, _ in counts),
               "exhaustive": False, "monitor_events": nev, "families": dict(counts),
               "known_findings": {k: len({b["tr"] for b in v}) for k, v in known.items()}, "model_runs": model,
               "checker_cmd": "tlc Obs.tla (batched traces) ; harness.test TestWorker"}
        if extra_cov:
            cov.update(extra_cov)
        assume = ["synctest quiescence is exact", "row markers are self-delimiting", "TLC evaluates Obs.tla correctly",
                  "known findings are matched by rule name, which carries the mechanism (specs/Obs.tla)"]
        lines.append("%s %s sched: %d traces, %d monitor states, %d violations, %.1fs" % (prop, tier, len(traces), st, nviol, time.time() - t0))
        return {"cov": cov, "lines": lines, "nviol": nviol, "assume": assume + (extra_assume or [])}
    finally:
        shutil.rmtree(wd, ignore_errors=True)


def replay(path):
    d = json.load(open(path))
    sc = d["scenario"]
    wd = core.workdir("replay")
    try:
        binary = core.build_harness(wd)
        traces = core.run_scenarios(binary, wd, [sc], jobs=1)
        bad, st, tr, nev = core.run_obs(traces, wd)
        for b in bad:
            print("BROKEN", b)
        print("replayed %s: %d broken rules (recorded: %s)" % (sc["id"], len(bad), d.get("rule")))
        return 1 if any(d["property"] in b["p"].split(",") for b in bad) else 0
    finally:
        shutil.rmtree(wd, ignore_errors=True)


def setup():
    wd = core.workdir("setup")
    try:
        core.build_harness(wd)
        rc, out = core.run_tlc(core.SPECS, "Obs.tla", "Obs.cfg", env={"OBS_TRACE": os.path.join(core.SPECS, "empty.ndjson"),
                                                                      "OBS_OUT": os.path.join(wd, "o.json")})
        if rc != 0:
            raise core.Infra("TLC cannot run Obs.tla: " + out[-2000:])
        print("setup ok")
        return 0
    finally:
        shutil.rmtree(wd, ignore_errors=True)


def barstate_part(prop, tier, seed):
    from . import barstate
    cov, lines, nviol, wall = barstate.run(prop, tier, seed)
    lines.append("%s %s barstate: %d sequences replayed, %d violations, %.1fs" % (prop, tier, cov["evaluations"], nviol, wall))
    return {"cov": cov, "lines": lines, "nviol": nviol,
            "assume": ["the getters Current/Completed/Aborted are the observation; refill and total are not observable without a frame",
                       "int64 range: arguments beyond the small model domain are covered by the homogeneity of the rules (no overflow), not by TLC"]}


PARTS = {p: [sched_part] for p in SCHED_PLANS}
SCHED_PLANS["C09"] = [("base", 150, 3000), ("stop", 50, 1000)]
PARTS["C09"] = [barstate_part, sched_part]
PARTS["C11"] = [barstate_part, sched_part]


def lin_part(prop, tier, seed):
    from . import lin
    return lin.run(prop, tier, seed)


PARTS["C10"] = [lin_part]


def fill_part(prop, tier, seed):
    from . import fillpart
    return fillpart.run(prop, tier, seed)


def proxy_part(prop, tier, seed):
    from . import fillpart
    return fillpart.table(prop, tier, seed, "Proxy.tla", "ProxyQuick.cfg", "Proxy.cfg", "TestProxyCases", "PROXY",
                          "every script of <= MaxCalls results (n in {0,1,3}, err in {none, EOF, custom}) x direction x Close x fast path x "
                          "moving-average decorator (bare and under two wrappers) x total known/unknown enumerated by TLC from Proxy.tla and "
                          "executed on the real ProxyReader/ProxyWriter; each case is a distinct configuration",
                          "proxy-disagrees-with-Proxy.tla",
                          ["byte content is checked through position-coded bytes; sample durations are only checked for plausibility (0..5s)"], variants=1)


PARTS["C19"] = [proxy_part]


def decor_part(prop, tier, seed):
    from . import fillpart
    return fillpart.table(prop, tier, seed, "MCDecor.tla", "DecorQuick.cfg", "Decor.cfg", "TestDecorCases", "DECOR",
                          "cases enumerated by TLC from Decor.tla: every sample sequence (n in {-1,0,1,3}, dur in {0,1,5}) of length <= MaxSamples "
                          "delivered through wrappers 0/1/3 deep; byte counts m*B^e+d at every unit boundary for both bases; durations h/m/s(+ms) below "
                          "60 h in four styles for elapsed and ETA; (current,total) percentages incl. the int64 scale; each case is distinct",
                          "decorator-disagrees-with-Decor.tla",
                          ["the digits printed for verbs e/g are only checked to read back within a relative tolerance",
                           "elapsed / ETA / average speed run on the fake clock of a synctest bubble",
                           "TLC integers are 32-bit: byte counts are symbolic (B, e, m, d) in the specification and exact big integers in the driver"])


PARTS["C20"] = [decor_part]
PARTS["C07"] = [fill_part]
PARTS["C08"] = [fill_part]
LEVEL = {"C15": "fault_enumeration"}


def merge(covs):
    out = {"states": 0, "transitions": 0, "traces_validated_against_impl": 0, "evaluations": 0, "distinct_nontrivial": 0,
           "samples": [], "rule": "", "exhaustive": False, "parts": []}
    for c in covs:
        for k in ("states", "transitions", "traces_validated_against_impl", "evaluations", "distinct_nontrivial"):
            out[k] += c.get(k, 0)
        out["samples"].extend(c.get("samples", [])[:3])
        out["rule"] += (" | " if out["rule"] else "") + c.get("rule", "")
        out["parts"].append({k: v for k, v in c.items() if k not in ("samples",)})
    out["checker_cmd"] = " ; ".join(c.get("checker_cmd", "") for c in covs)
    return out


def run_property(prop, tier, seed):
    if prop not in PARTS:
        raise core.Infra("no check registered for " + prop)
    t0 = time.time()
    res = [part(prop, tier, seed) for part in PARTS[prop]]
    nviol = sum(r["nviol"] for r in res)
    assume = []
    for r in res:
        for a in r["assume"]:
            if a not in assume:
                assume.append(a)
    core.write_evidence(prop, tier, seed, LEVEL.get(prop, "model_checking"), merge([r["cov"] for r in res]), assume, time.time() - t0, nviol)
    for r in res:
        for ln in r["lines"]:
            print(ln)
    return 1 if nviol else 0
