"""C04 / C18 (screen): Term.tla.  (1) the frame protocol on the emulated terminal, exhaustively by TLC;
(2) frames recorded from the real library (gate-scheduled runs on a buffer, and free runs on a real pty)
run through the same emulator by TLC (TermTrace.tla)."""
import json
import os

from . import core


def term_events(traces, scen):
    """Turns the parsed frames of recorded executions into TermTrace events.  On a buffer there is no
    terminal, so the frames are interpreted on a terminal tall enough for every frame (the property's
    'fits the terminal' clause is checked on the pty runs)."""
    out = []
    for tid, evs in traces.items():
        sc = scen[tid]
        if sc["cfg"]["refresh"] == "none" or any(e["ev"] in ("hang", "panic", "fault") for e in evs):
            continue
        frames = [e for e in evs if e["ev"] == "out"]
        if not frames:
            continue
        pop = sc["cfg"]["pop"]
        adds = {o["b"]: o for c in sc["clients"] for o in c if o["op"] == "add"}
        succ = {o.get("after") for o in adds.values() if o.get("after")}
        normal = any(e["ev"] == "ret" and e["op"] == "wait" for e in evs) and not any(
            e["ev"] == "inv" and e["op"] in ("cancel", "shutdown") for e in evs) and sc["cfg"]["refresh"] == "auto"
        last = {}
        for k, f in enumerate(frames):
            for g in f["groups"]:
                last[g["b"]] = k
        # a finished bar hands its place to a successor only if the successor exists when the bar's second terminal frame is
        # flushed; a successor created later (recorded finding F2b) leaves the bar to be popped like any other:
        # True = hands over, False = is popped, None = the Add raced with that frame (the trace is judged up to there)
        cyc, cycs = 0, {}
        for e in evs:
            if e["ev"] == "cycle":
                cyc = e["seq"]
            elif e["ev"] == "out":
                cycs[e["k"]] = cyc
        addret = {e["b"]: e["seq"] for e in evs if e["ev"] == "ret" and e["op"] == "add" and not e.get("err")}
        hands = {}
        for b in succ:
            tf = [f for f in frames if any(g["b"] == b and g["fl"] != "-" for g in f["groups"])]
            rets = [addret[o["b"]] for o in adds.values() if o.get("after") == b and o["b"] in addret]
            if len(tf) < 2 or not rets:
                hands[b] = bool(rets)
            elif min(rets) < cycs.get(tf[1]["k"], 0):
                hands[b] = True
            elif min(rets) > tf[1]["seq"]:
                hands[b] = False
            else:
                hands[b] = None
        for k, f in enumerate(frames):
            if any(m for m in f["malformed"]):
                break
            rows = []
            undecided = False
            for g in f["groups"]:
                b = g["b"]
                popped = (pop and b in adds and not adds[b].get("nopop") and not hands.get(b, False) and g["fl"] != "-" and last[b] == k)
                if pop and b in hands and hands[b] is None and g["fl"] != "-" and last[b] == k:
                    undecided = True
                if popped and k == len(frames) - 1 and not normal:
                    undecided = True
                n = 1 + g["ext"]
                for i in range(n):
                    rows.append({"s": "%s.%d#%d" % (b, i, f["k"]), "base": "%s.%d" % (b, i), "persist": bool(popped)})
            if undecided:
                break
            lines = [{"s": "%s#%d" % (t, f["k"]), "base": "", "persist": True} for t in f["text"]] + rows
            out.append({"tr": tid, "h": 200, "w": sc["cfg"]["width"], "k": f["k"], "cuu": f["cuu"],
                        "lines": lines, "nrows": len(rows), "maxw": f["maxw"], "exact": True})
    return out


def run_termtrace(events, wd, tag="term"):
    if not events:
        return [], 0, 0
    bad, states, trans = [], 0, 0
    B = 6000
    for bi in range(0, len(events), B):
        # never split a trace across batches
        chunk = events[bi:bi + B]
        tf = os.path.join(wd, "%s-%d.ndjson" % (tag, bi))
        of = os.path.join(wd, "%s-%d.out" % (tag, bi))
        with open(tf, "w") as f:
            for e in chunk:
                f.write(json.dumps(e) + "\n")
        rc, out = core.run_tlc(core.SPECS, "TermTrace.tla", "TermTrace.cfg", env={"TERM_TRACE": tf, "TERM_OUT": of}, workers=1,
                               timeout=1800, java_opts="-Xss256m")
        if rc != 0 or not os.path.exists(of):
            raise core.Infra("TermTrace.tla did not consume its batch:\n" + out[-3000:])
        st, tr = core.tlc_stats(out)
        states += st
        trans += tr
        bad.extend(json.load(open(of)))
    return bad, states, trans


def design(cfgs):
    res = []
    for cfg in cfgs:
        rc, out = core.run_tlc(core.SPECS, "TermDesign.tla", cfg, workers=8, timeout=1800)
        st, tr = core.tlc_stats(out)
        res.append({"cfg": cfg, "rc": rc, "states": st, "transitions": tr, "violated": "is violated" in out})
    return res
